use microscpi::{self as scpi, ErrorHandler, Interface};
#[derive(Debug, Clone, Copy)] pub enum E { I(i128), Err(i16), Len(i16, i128), F(u64, bool, bool), Any }
include!("cases.rs");
use std::future::Future; use std::pin::pin; use std::task::*;
fn nw() -> Waker { fn c(_: *const ()) -> RawWaker { RawWaker::new(std::ptr::null(), &VT) } fn n(_: *const ()) {} static VT: RawWakerVTable = RawWakerVTable::new(c, n, n, n); unsafe { Waker::from_raw(RawWaker::new(std::ptr::null(), &VT)) } }
fn block_on<F: Future>(f: F) -> F::Output { let mut f = pin!(f); let w = nw(); let mut cx = Context::from_waker(&w); loop { if let Poll::Ready(v) = f.as_mut().poll(&mut cx) { return v; } } }
#[derive(Default)] pub struct If { ints: Vec<i128>, fl: Vec<u64>, errs: Vec<i16> }
impl ErrorHandler for If { fn handle_error(&mut self, e: scpi::Error) { self.errs.push(e.number()); } }
#[scpi::interface]
impl If {
    #[scpi(cmd = "U8")] fn u8_(&mut self, v: u8) -> Result<(), scpi::Error> { self.ints.push(v as i128); Ok(()) }
    #[scpi(cmd = "I8")] fn i8_(&mut self, v: i8) -> Result<(), scpi::Error> { self.ints.push(v as i128); Ok(()) }
    #[scpi(cmd = "U16")] fn u16_(&mut self, v: u16) -> Result<(), scpi::Error> { self.ints.push(v as i128); Ok(()) }
    #[scpi(cmd = "I16")] fn i16_(&mut self, v: i16) -> Result<(), scpi::Error> { self.ints.push(v as i128); Ok(()) }
    #[scpi(cmd = "U32")] fn u32_(&mut self, v: u32) -> Result<(), scpi::Error> { self.ints.push(v as i128); Ok(()) }
    #[scpi(cmd = "I32")] fn i32_(&mut self, v: i32) -> Result<(), scpi::Error> { self.ints.push(v as i128); Ok(()) }
    #[scpi(cmd = "U64")] fn u64_(&mut self, v: u64) -> Result<(), scpi::Error> { self.ints.push(v as i128); Ok(()) }
    #[scpi(cmd = "I64")] fn i64_(&mut self, v: i64) -> Result<(), scpi::Error> { self.ints.push(v as i128); Ok(()) }
    #[scpi(cmd = "USIZE")] fn usize_(&mut self, v: usize) -> Result<(), scpi::Error> { self.ints.push(v as i128); Ok(()) }
    #[scpi(cmd = "ISIZE")] fn isize_(&mut self, v: isize) -> Result<(), scpi::Error> { self.ints.push(v as i128); Ok(()) }
    #[scpi(cmd = "BOOL")] fn bool_(&mut self, v: bool) -> Result<(), scpi::Error> { self.ints.push(v as i128); Ok(()) }
    #[scpi(cmd = "F32")] fn f32_(&mut self, v: f32) -> Result<(), scpi::Error> { self.fl.push(v.to_bits() as u64); Ok(()) }
    #[scpi(cmd = "F64")] fn f64_(&mut self, v: f64) -> Result<(), scpi::Error> { self.fl.push(v.to_bits()); Ok(()) }
}
fn main() {
    let mut bad = 0; let mut n = 0; let mut cls = std::collections::BTreeMap::new();
    for (ty, lit, exp) in CASES {
        let mut i = If::default(); let mut out: heapless::Vec<u8, 8> = heapless::Vec::new();
        let msg = format!("{} {}\n", ty.to_uppercase(), lit);
        block_on(i.run(msg.as_bytes(), &mut out)); n += 1;
        let isf = ty.starts_with('f');
        let ok = match exp {
            E::I(v) => i.ints == vec![*v] && i.errs.is_empty(),
            E::Err(c) => i.ints.is_empty() && i.fl.is_empty() && i.errs == vec![*c],
            E::Len(c, v) => (i.ints == vec![*v] && i.errs.is_empty()) || (i.ints.is_empty() && i.errs == vec![*c]),
            E::F(bits, inf, zero) => { let mask = if *zero { if *ty == "f32" { 0x7fffffffu64 } else { 0x7fffffffffffffff } } else { u64::MAX }; (i.fl.len() == 1 && i.fl[0] & mask == *bits & mask && i.errs.is_empty()) || (*inf && i.fl.is_empty() && i.errs == vec![-120]) }
            E::Any => i.errs.len() + i.ints.len() + i.fl.len() == 1,
        };
        *cls.entry(format!("{}:{}", if isf { "float" } else { "int" }, match exp { E::I(_) => "ok", E::Err(_) => "err", E::Len(..) => "lenient", E::F(_, true, _) => "overflow", E::F(..) => "finite", E::Any => "any" })).or_insert(0usize) += 1;
        if !ok { bad += 1; if bad < 25 { println!("MISMATCH {msg:?} exp={exp:?} ints={:?} fl={:x?} errs={:?}", i.ints, i.fl, i.errs); } }
    }
    println!("n={n} bad={bad} classes={cls:?}");
}

use microscpi::{self as scpi, Interface, ErrorQueue};
use std::future::Future; use std::pin::pin; use std::task::*;
fn nw() -> Waker { fn c(_: *const ()) -> RawWaker { RawWaker::new(std::ptr::null(), &VT) } fn n(_: *const ()) {} static VT: RawWakerVTable = RawWakerVTable::new(c, n, n, n); unsafe { Waker::from_raw(RawWaker::new(std::ptr::null(), &VT)) } }
pub fn block_on<F: Future>(f: F) -> F::Output { let mut f = pin!(f); let w = nw(); let mut cx = Context::from_waker(&w); loop { if let Poll::Ready(v) = f.as_mut().poll(&mut cx) { return v; } } }
#[derive(Default)] pub struct Q(scpi::StaticErrorQueue<10>);
impl Q { pub fn take(&mut self) -> Vec<i16> { let mut v = vec![]; while let Some(e) = self.0.pop_error() { v.push(e.number()); } v } }
impl ErrorQueue for Q { fn error_count(&self) -> usize { self.0.error_count() } fn push_error(&mut self, e: scpi::Error) { self.0.push_error(e) } fn pop_error(&mut self) -> Option<scpi::Error> { self.0.pop_error() } }
pub trait T { fn log(&mut self) -> &mut Vec<i32>; fn errs(&mut self) -> Vec<i16>; fn errs_via_queue(&self) -> bool; }
pub fn drive<I: Interface + T + Default>(k: usize, hs: &[(&str, Option<i32>)], bad: &mut usize, n: &mut usize, hit: &mut usize) {
    for (h, exp) in hs {
        let mut i = I::default();
        let mut out: heapless::Vec<u8, 64> = heapless::Vec::new();
        let msg = format!("{h}\n");
        block_on(i.run(msg.as_bytes(), &mut out));
        let log = i.log().clone(); let errs = i.errs();
        *n += 1;
        let ok = match exp {
            Some(id) if *id >= 0 => { *hit += 1; log == vec![*id] && errs.is_empty() }
            Some(id) => { *hit += 1; log.is_empty() && errs.is_empty() && !out.is_empty() }
            None => log.is_empty() && errs == vec![-113],
        };
        if !ok { *bad += 1; if *bad < 20 { println!("MISMATCH iface={k} hdr={h:?} exp={exp:?} log={log:?} errs={errs:?} out={:?}", String::from_utf8_lossy(&out)); } }
    }
}
pub fn drive2<I: Interface + T + Default>(k: usize, ms: &[(&str, &[i32], usize)], bad: &mut usize, n: &mut usize) {
    for (m, exp_h, exp_e) in ms {
        let mut i = I::default();
        let mut out: heapless::Vec<u8, 256> = heapless::Vec::new();
        block_on(i.run(m.as_bytes(), &mut out));
        let log: Vec<i32> = i.log().clone(); let errs = i.errs();
        *n += 1;
        let uses_q = std::any::type_name::<I>().len() > 0 && i.errs_via_queue(); let ok = log == exp_h.to_vec() && (uses_q || (errs.len() == *exp_e && errs.iter().all(|e| *e == -113)));
        if !ok { *bad += 1; if *bad < 12 { println!("MISMATCH2 iface={k} msg={m:?} exp={exp_h:?}/{exp_e} log={log:?} errs={errs:?}"); } }
    }
}

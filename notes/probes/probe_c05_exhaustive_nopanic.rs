use microscpi::{self as scpi, Adapter, ErrorHandler, Interface};
use std::future::Future;
use std::pin::pin;
use std::task::{Context, Poll, RawWaker, RawWakerVTable, Waker};
fn noop_waker() -> Waker {
    fn clone(_: *const ()) -> RawWaker { RawWaker::new(std::ptr::null(), &VT) }
    fn noop(_: *const ()) {}
    static VT: RawWakerVTable = RawWakerVTable::new(clone, noop, noop, noop);
    unsafe { Waker::from_raw(RawWaker::new(std::ptr::null(), &VT)) }
}
fn block_on<F: Future>(f: F) -> F::Output {
    let mut f = pin!(f); let w = noop_waker(); let mut cx = Context::from_waker(&w);
    loop { if let Poll::Ready(v) = f.as_mut().poll(&mut cx) { return v; } }
}
#[derive(Default)]
pub struct If { n: u64 }
impl ErrorHandler for If { fn handle_error(&mut self, _e: scpi::Error) { self.n += 1; } }
#[scpi::interface]
impl If {
    #[scpi(cmd = "*A?")] async fn idn(&mut self) -> Result<&str, scpi::Error> { Ok("AB") }
    #[scpi(cmd = "A:H")] async fn a(&mut self, _v: &[u8]) -> Result<(), scpi::Error> { Ok(()) }
    #[scpi(cmd = "A:[E]:A?")] async fn b(&mut self, _v: u8) -> Result<f32, scpi::Error> { Ok(1.5) }
    #[scpi(cmd = "H")] async fn c(&mut self, _s: &str) -> Result<(), scpi::Error> { Ok(()) }
    #[scpi(cmd = "H?")] async fn d(&mut self) -> Result<(u8, &str, scpi::Arbitrary), scpi::Error> { Ok((1, "x\"y", scpi::Arbitrary(b"abc"))) }
    #[scpi(cmd = "E?")] async fn e(&mut self) -> Result<(), scpi::Error> { Ok(()) }
}
struct Ad<'a> { data: &'a [u8], pos: usize, chunk: usize }
impl<'a> Adapter for Ad<'a> {
    type Error = ();
    async fn read(&mut self, dst: &mut [u8]) -> Result<usize, ()> {
        if self.pos >= self.data.len() { return Err(()); }
        let n = self.chunk.min(dst.len()).min(self.data.len() - self.pos);
        dst[..n].copy_from_slice(&self.data[self.pos..self.pos + n]); self.pos += n; Ok(n)
    }
    async fn write(&mut self, _src: &[u8]) -> Result<(), ()> { Ok(()) }
    async fn flush(&mut self) -> Result<(), ()> { Ok(()) }
}
fn main() {
    let sigma: &[u8] = b"A*:;, \n?#1H'\".e+2E";
    let maxlen: usize = std::env::args().nth(1).map(|s| s.parse().unwrap()).unwrap_or(4);
    let mut total = 0u64; let mut bad = 0u64;
    fn rec(x: &mut Vec<u8>, sigma: &[u8], maxlen: usize, f: &mut dyn FnMut(&[u8])) { f(x); if x.len() == maxlen { return; } for &s in sigma { x.push(s); rec(x, sigma, maxlen, f); x.pop(); } }
    std::panic::set_hook(Box::new(|_| {}));
    let mut x = vec![];
    rec(&mut x, sigma, maxlen, &mut |x: &[u8]| {
        total += 1;
        let r = std::panic::catch_unwind(|| {
            macro_rules! caps { ($($c:literal)*) => { $( { let mut i = If::default(); let mut w: heapless::Vec<u8, $c> = heapless::Vec::new(); let rem = block_on(i.run(x, &mut w)); let ok = rem.is_empty() || (rem.as_ptr() as usize + rem.len() == x.as_ptr() as usize + x.len() && rem.len() <= x.len()); if !ok { panic!("suffix"); } } )* } }
            caps!(0 1 2 3 4 5 6 7 8 9 10 11 12 13 14 15 16 20 64);
            macro_rules! ns { ($($n:literal)*) => { $( for chunk in [1usize, 2, 3, 64] { let mut i = If::default(); let mut ad = Ad { data: x, pos: 0, chunk }; let _ = block_on(i.process::<$n, Ad>(&mut ad)); } )* } }
            ns!(1 2 3 4 5 6 7 8 9 10 11 12 13 14 15 16 17 32);
        });
        if r.is_err() { bad += 1; if bad < 30 { println!("PANIC x={:?}", String::from_utf8_lossy(x)); } }
    });
    println!("total={total} bad={bad}");
}

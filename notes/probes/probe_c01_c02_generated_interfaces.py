import random, sys, itertools
seed=int(sys.argv[1]); K=int(sys.argv[2])
R=random.Random(seed)
def mnemonic():
    # first char upper letter; rest mix
    n=R.randint(1,6)
    s=R.choice("ABCDEFGHIJKLMNOPQRSTUVWXYZ")
    for _ in range(n-1):
        c=R.random()
        if c<0.4: s+=R.choice("ABCDEFGHIJKLMNOPQRSTUVWXYZ")
        elif c<0.85: s+=R.choice("abcdefghijklmnopqrstuvwxyz")
        elif c<0.95: s+=R.choice("0123456789")
        else: s+="_"
    return s
def short(s): return ''.join(c for c in s if not c.islower())
def long_(s): return s.upper()
def expand(nodes):
    paths=[[]]
    for (sp,opt) in nodes:
        new=[]
        for p in paths:
            new.append(p+[long_(sp)])
            if short(sp)!=long_(sp): new.append(p+[short(sp)])
            if opt: new.append(p)
        paths=new
    return paths
out=["#![allow(warnings)]\nuse microscpi as scpi;\nuse microscpi::Interface;\nmod rt;\n"]
tests=[]
cmsgs=[]
skipped=0
for k in range(K):
    vocab=[mnemonic() for _ in range(R.randint(3,6))]
    attr=R.choice(["","StandardCommands","ErrorCommands","StandardCommands, ErrorCommands"])
    d={}   # (tuple path, q) -> hid
    decls=[]
    if "StandardCommands" in attr:
        for p in expand([("SYSTem",False),("VERSion",False)]): d[(tuple(p),True)]=-1
    if "ErrorCommands" in attr:
        for p in expand([("SYSTem",False),("ERRor",False),("NEXT",True)]): d[(tuple(p),True)]=-2
        for p in expand([("SYSTem",False),("ERRor",False),("COUNt",False)]): d[(tuple(p),True)]=-3
    voc2=vocab+(["SYSTem","ERRor"] if attr else [])
    for di in range(R.randint(6,14)):
        if R.random()<0.15:
            nodes=[("*"+R.choice("ABCDEFGH")+R.choice("ABCDEFGH")+R.choice(["C","d","","Ef"]),False)]
        else:
            depth=R.randint(1,4)
            nodes=[(R.choice(voc2), R.random()<0.25) for _ in range(depth)]
            if all(o for _,o in nodes): nodes[-1]=(nodes[-1][0],False)
        q=R.random()<0.5
        paths=expand(nodes)
        keys=[(tuple(p),q) for p in paths]
        if len(set(keys))!=len(keys) or any(kk in d for kk in keys) or any(len(p)==0 for p in paths):
            skipped+=1; continue
        hid=len(decls)
        for kk in keys: d[kk]=hid
        decls.append((nodes,q))
    # emit
    body=[]
    for hid,(nodes,q) in enumerate(decls):
        s=":".join(("["+sp+"]") if o else sp for sp,o in nodes)+("?" if q else "")
        a="async " if R.random()<0.5 else ""
        body.append(f'  #[scpi(cmd = "{s}")] pub {a}fn h{hid}(&mut self) -> Result<(), scpi::Error> {{ self.log.push({hid}); Ok(()) }}')
    queue = 'impl scpi::ErrorCommands for If { fn error_queue(&mut self) -> &mut impl scpi::ErrorQueue { &mut self.q } }' if "ErrorCommands" in attr else 'impl scpi::ErrorHandler for If { fn handle_error(&mut self, e: scpi::Error) { self.errs.push(e.number()); } }'
    std = 'impl scpi::StandardCommands for If {}' if "StandardCommands" in attr else ''
    out.append(f"pub mod m{k} {{ use super::*; #[derive(Default)] pub struct If {{ pub log: Vec<i32>, pub errs: Vec<i16>, pub q: rt::Q }}\n {queue}\n {std}\n #[scpi::interface({attr})]\n impl If {{\n"+"\n".join(body)+"\n}\n"+
      f" impl rt::T for If {{ fn log(&mut self)->&mut Vec<i32>{{&mut self.log}} fn errs(&mut self)->Vec<i16>{{ let mut v=std::mem::take(&mut self.errs); v.extend(self.q.take()); v }} fn errs_via_queue(&self)->bool{{ "+("true" if "ErrorCommands" in attr else "false")+f" }} }}\n}}")
    # headers
    hs=[]
    allkeys=list(d.keys())
    prefixes=set()
    for (p,q) in allkeys:
        for i in range(len(p)+1): prefixes.add(p[:i])
    def rcase(s): return ''.join(c.lower() if R.random()<0.5 else c.upper() for c in s)
    cand=set()
    for (p,q) in allkeys:
        cand.add((p,q)); cand.add((p,not q))
    for hid,(nodes,q) in enumerate(decls):
        # near misses
        base=[long_(sp) for sp,_ in nodes]
        for i,(sp,o) in enumerate(nodes):
            L=long_(sp); S=short(sp)
            alts=[L[:j] for j in range(1,len(L))]+[L+"X", S+"Q" if S else "Q"]
            for a in alts:
                if a and a[0].isalpha() or a.startswith("*") and len(a)>1:
                    cand.add((tuple(base[:i]+[a]+base[i+1:]),q))
            cand.add((tuple(base[:i]+base[i+1:]),q))
            cand.add((tuple(base[:i]+[base[i]]+base[i:]),q))
        cand.add((tuple(base+[R.choice(vocab).upper()]),q))
        if len(base)>1: cand.add((tuple(base[::-1]),q))
    for (p,q) in cand:
        if len(p)==0: continue
        if any(x.startswith("*") for x in p[1:]) : continue
        if p[0].startswith("*") and len(p)>1: continue
        exp=d.get((p,q))
        hdr=":".join(rcase(x) for x in p)+("?" if q else "")
        hs.append((hdr,exp))
    # compound messages
    msgs=[]
    keys_sorted=sorted(d.keys())
    for mi in range(60):
        nmsg=R.randint(1,3); text=""; exp_h=[]; exp_e=0
        for _m in range(nmsg):
            ctx=(); nun=R.randint(1,4); dead=False; parts=[]
            for ui in range(nun):
                c=R.random()
                if c<0.08 and ui==nun-1 and ui>0:
                    parts.append(""); continue   # trailing empty unit
                if c<0.5:
                    # relative valid from ctx if possible
                    opts=[(p,q) for (p,q) in keys_sorted if len(p)>len(ctx) and p[:len(ctx)]==ctx and not p[0].startswith("*")]
                    if not opts: opts=[(p,q) for (p,q) in keys_sorted if not p[0].startswith("*")]; 
                    if not opts: continue
                    p,q=R.choice(opts)
                    if p[:len(ctx)]==ctx and len(p)>len(ctx): rel=p[len(ctx):]; absolute=False
                    else: rel=p; absolute=True
                elif c<0.7:
                    opts=[(p,q) for (p,q) in keys_sorted if not p[0].startswith("*")]
                    if not opts: continue
                    p,q=R.choice(opts); rel=p; absolute=True
                elif c<0.8:
                    opts=[(p,q) for (p,q) in keys_sorted if p[0].startswith("*")]
                    if not opts: continue
                    p,q=R.choice(opts); rel=p; absolute=False
                else:
                    # arbitrary relative (maybe undefined): take some key's suffix
                    opts=[(p,q) for (p,q) in keys_sorted if not p[0].startswith("*")]
                    if not opts: continue
                    p,q=R.choice(opts); j=R.randint(0,len(p)-1); rel=p[j:]; absolute=False
                    if R.random()<0.3: q=not q
                hdr=(":" if absolute else "")+":".join(rcase(x) for x in rel)+("?" if q else "")
                parts.append(hdr)
                if dead: continue
                if rel[0].startswith("*"):
                    key=tuple(rel); newctx=ctx
                else:
                    base=() if absolute else ctx
                    key=base+tuple(rel); newctx=key[:-1]
                h=d.get((key,q))
                if h is not None:
                    if h>=0: exp_h.append(h)
                    ctx=newctx
                else:
                    exp_e+=1
                    if key in prefixes: ctx=newctx
                    else: dead=True
            text+=";".join(parts)+"\n"
        msgs.append((text,exp_h,exp_e))
    cmsgs.append((k,msgs))
    tests.append((k,hs))
out.append("fn main(){ let mut bad=0; let mut n=0; let mut hit=0;")
for k,hs in tests:
    arr=",".join(f'("{h}",{"None" if e is None else "Some(%d)"%e})' for h,e in hs)
    out.append(f" rt::drive::<m{k}::If>({k}, &[{arr}], &mut bad, &mut n, &mut hit);")

for k,msgs in cmsgs:
    arr=",".join('("%s",&[%s],%d)'%(t.replace("\n","\\n"),",".join(map(str,h)),e) for t,h,e in msgs)
    out.append(f" rt::drive2::<m{k}::If>({k}, &[{arr}], &mut bad, &mut n);")
out.append(' println!("headers+msgs={} hits={} bad={}", n, hit, bad); }')
open("src/main.rs","w").write("\n".join(out))
print("skipped",skipped)

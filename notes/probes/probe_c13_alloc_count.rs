use microscpi::{self as scpi, Adapter, ErrorCommands, ErrorQueue, Interface, StandardCommands, StaticErrorQueue};
use std::alloc::{GlobalAlloc, Layout, System};
use std::sync::atomic::{AtomicUsize, Ordering::SeqCst};
struct Counting; static ALLOCS: AtomicUsize = AtomicUsize::new(0);
unsafe impl GlobalAlloc for Counting {
    unsafe fn alloc(&self, l: Layout) -> *mut u8 { ALLOCS.fetch_add(1, SeqCst); System.alloc(l) }
    unsafe fn dealloc(&self, p: *mut u8, l: Layout) { System.dealloc(p, l) }
    unsafe fn realloc(&self, p: *mut u8, l: Layout, n: usize) -> *mut u8 { ALLOCS.fetch_add(1, SeqCst); System.realloc(p, l, n) }
}
#[global_allocator] static A: Counting = Counting;
use std::future::Future; use std::pin::pin; use std::task::*;
fn nw() -> Waker { fn c(_: *const ()) -> RawWaker { RawWaker::new(std::ptr::null(), &VT) } fn n(_: *const ()) {} static VT: RawWakerVTable = RawWakerVTable::new(c, n, n, n); unsafe { Waker::from_raw(RawWaker::new(std::ptr::null(), &VT)) } }
fn block_on<F: Future>(f: F) -> F::Output { let mut f = pin!(f); let w = nw(); let mut cx = Context::from_waker(&w); loop { if let Poll::Ready(v) = f.as_mut().poll(&mut cx) { return v; } } }
pub struct If { n: u64, q: StaticErrorQueue<4>, s: heapless::String<16> }
impl ErrorCommands for If { fn error_queue(&mut self) -> &mut impl ErrorQueue { &mut self.q } }
impl StandardCommands for If {}
#[scpi::interface(StandardCommands, ErrorCommands)]
impl If {
    #[scpi(cmd = "*IDN?")] async fn idn(&mut self) -> Result<&str, scpi::Error> { Ok("A,\"B\"") }
    #[scpi(cmd = "A")] async fn a(&mut self, v: i32, f: f64, b: bool, s: &str, x: &[u8]) -> Result<(), scpi::Error> { self.n += v as u64 + f as u64 + b as u64 + s.len() as u64 + x.len() as u64; Ok(()) }
    #[scpi(cmd = "F?")] fn f(&mut self, f: f32) -> Result<(f32, f64, i64, bool), scpi::Error> { Ok((f, f as f64 * 1e300, -5, true)) }
    #[scpi(cmd = "B?")] fn b<'a>(&mut self, x: &'a [u8]) -> Result<(scpi::Arbitrary<'a>, scpi::Characters<'static>), scpi::Error> { Ok((scpi::Arbitrary(x), scpi::Characters("AB"))) }
    #[scpi(cmd = "S?")] fn s(&mut self) -> Result<heapless::String<16>, scpi::Error> { Ok(self.s.clone()) }
    #[scpi(cmd = "V?")] fn v(&mut self) -> Result<heapless::Vec<u16, 4>, scpi::Error> { Ok(heapless::Vec::from_slice(&[1, 2, 3]).unwrap()) }
    #[scpi(cmd = "E")] fn e(&mut self) -> Result<(), scpi::Error> { Err(scpi::Error::Custom(5, "x")) }
}
struct Ad<'a> { data: &'a [u8], pos: usize, chunk: usize, out: usize }
impl<'a> Adapter for Ad<'a> { type Error = ();
    async fn read(&mut self, dst: &mut [u8]) -> Result<usize, ()> { if self.pos >= self.data.len() { return Err(()); } let n = self.chunk.min(dst.len()).min(self.data.len() - self.pos); dst[..n].copy_from_slice(&self.data[self.pos..self.pos + n]); self.pos += n; Ok(n) }
    async fn write(&mut self, s: &[u8]) -> Result<(), ()> { self.out += s.len(); Ok(()) } async fn flush(&mut self) -> Result<(), ()> { Ok(()) } }
fn main() {
    let inputs: &[&[u8]] = &[b"*IDN?\n", b"A 1,2.5e3,ON,'str',#13abc\n", b"F? 1.5;B? #15a\nb;c;S?;V?;E;SYST:ERR?;ERR:COUN?;:SYST:VERS?\n", b"BAD\nA 1\nA 1,2,3,4,5,6,7,8,9,0,1,2\n'\n", b"F? 1e39;F? 1e-50;F? #HFF\n\xff\x00#9\n"];
    let mut i = If { n: 0, q: StaticErrorQueue::new(), s: heapless::String::new() }; let _ = i.s.push_str("he\"llo");
    for inp in inputs {
        let mut out: heapless::Vec<u8, 400> = heapless::Vec::new();
        let before = ALLOCS.load(SeqCst);
        block_on(i.run(inp, &mut out));
        for chunk in [1usize, 7, 64] { let mut ad = Ad { data: inp, pos: 0, chunk, out: 0 }; let _ = block_on(i.process::<400, Ad>(&mut ad)); }
        let after = ALLOCS.load(SeqCst);
        println!("allocs={} out={:?}", after - before, String::from_utf8_lossy(&out));
    }
}

use microscpi::{self as scpi, Adapter, ErrorHandler, Interface};
use std::future::Future;
use std::pin::pin;
use std::task::{Context, Poll, RawWaker, RawWakerVTable, Waker};

fn noop_waker() -> Waker {
    fn clone(_: *const ()) -> RawWaker { RawWaker::new(std::ptr::null(), &VT) }
    fn noop(_: *const ()) {}
    static VT: RawWakerVTable = RawWakerVTable::new(clone, noop, noop, noop);
    unsafe { Waker::from_raw(RawWaker::new(std::ptr::null(), &VT)) }
}
fn block_on<F: Future>(f: F) -> F::Output {
    let mut f = pin!(f);
    let w = noop_waker();
    let mut cx = Context::from_waker(&w);
    loop { if let Poll::Ready(v) = f.as_mut().poll(&mut cx) { return v; } }
}

#[derive(Default)]
pub struct If { log: Vec<String>, errs: Vec<scpi::Error> }
impl ErrorHandler for If { fn handle_error(&mut self, e: scpi::Error) { self.errs.push(e); self.log.push(format!("ERR {}", e.number())); } }

#[scpi::interface]
impl If {
    #[scpi(cmd = "*IDN?")] async fn idn(&mut self) -> Result<&str, scpi::Error> { self.log.push("idn".into()); Ok("A,\"B\",C") }
    #[scpi(cmd = "*RST")] async fn rst(&mut self) -> Result<(), scpi::Error> { self.log.push("rst".into()); Ok(()) }
    #[scpi(cmd = "SYSTem:A")] async fn sa(&mut self, v: i32) -> Result<(), scpi::Error> { self.log.push(format!("sys:a {v}")); Ok(()) }
    #[scpi(cmd = "SYSTem:B?")] async fn sb(&mut self) -> Result<u8, scpi::Error> { self.log.push("sys:b?".into()); Ok(7) }
    #[scpi(cmd = "SYSTem:BLK")] async fn sblk(&mut self, v: &[u8]) -> Result<(), scpi::Error> { self.log.push(format!("sys:blk {:?}", v)); Ok(()) }
    #[scpi(cmd = "SYSTem:STR")] async fn sstr(&mut self, v: &str) -> Result<(), scpi::Error> { self.log.push(format!("sys:str {:?}", v)); Ok(()) }
    #[scpi(cmd = "BLK")] async fn blk(&mut self, v: &[u8]) -> Result<(), scpi::Error> { self.log.push(format!("root:blk {:?}", v)); Ok(()) }
    #[scpi(cmd = "A")] async fn a(&mut self, v: i32) -> Result<(), scpi::Error> { self.log.push(format!("root:a {v}")); Ok(()) }
    #[scpi(cmd = "FAIL")] async fn fail(&mut self) -> Result<(), scpi::Error> { self.log.push("fail".into()); Err(scpi::Error::Custom(77, "boom")) }
    #[scpi(cmd = "SYSTem:ERRor:[NEXT]?")] async fn en(&mut self) -> Result<u8, scpi::Error> { self.log.push("err:next?".into()); Ok(1) }
    #[scpi(cmd = "SYSTem:ERRor:COUNt?")] async fn ec(&mut self) -> Result<u8, scpi::Error> { self.log.push("err:count?".into()); Ok(2) }
    #[scpi(cmd = "MANY")] async fn many(&mut self, a:u8,b:u8,c:u8,d:u8,e:u8,f:u8,g:u8,h:u8,i:u8,j:u8) -> Result<(), scpi::Error> { self.log.push(format!("many {a}{b}{c}{d}{e}{f}{g}{h}{i}{j}")); Ok(()) }
    #[scpi(cmd = "F32?")] async fn f32q(&mut self, v: f32) -> Result<f32, scpi::Error> { self.log.push(format!("f32 {v:?}")); Ok(v) }
    #[scpi(cmd = "BOOL")] async fn boolc(&mut self, v: bool) -> Result<(), scpi::Error> { self.log.push(format!("bool {v:?}")); Ok(()) }
    #[scpi(cmd = "I8")] async fn i8c(&mut self, v: i8) -> Result<(), scpi::Error> { self.log.push(format!("i8 {v:?}")); Ok(()) }
    #[scpi(cmd = "U8")] async fn u8c(&mut self, v: u8) -> Result<(), scpi::Error> { self.log.push(format!("u8 {v:?}")); Ok(()) }
}

fn run(input: &[u8]) {
    let mut i = If::default();
    let mut out: Vec<u8> = Vec::new();
    // std feature not enabled -> use heapless
    let mut hv: heapless::Vec<u8, 256> = heapless::Vec::new();
    let rem = block_on(i.run(input, &mut hv)).to_vec();
    out.extend_from_slice(&hv);
    println!("RUN {:?}\n   log={:?}\n   out={:?} rem={:?}", String::from_utf8_lossy(input), i.log, String::from_utf8_lossy(&out), String::from_utf8_lossy(&rem));
}

struct Ad { chunks: Vec<Vec<u8>>, pos: usize, trace: Vec<String> }
impl Adapter for Ad {
    type Error = &'static str;
    async fn read(&mut self, dst: &mut [u8]) -> Result<usize, Self::Error> {
        if self.pos >= self.chunks.len() { self.trace.push("read->EOF".into()); return Err("eof"); }
        let c = &mut self.chunks[self.pos];
        let n = c.len().min(dst.len());
        dst[..n].copy_from_slice(&c[..n]);
        c.drain(..n);
        if c.is_empty() { self.pos += 1; }
        self.trace.push(format!("read({})->{}", dst.len(), n));
        Ok(n)
    }
    async fn write(&mut self, src: &[u8]) -> Result<(), Self::Error> { self.trace.push(format!("write {:?}", String::from_utf8_lossy(src))); Ok(()) }
    async fn flush(&mut self) -> Result<(), Self::Error> { self.trace.push("flush".into()); Ok(()) }
}

fn process<const N: usize>(chunks: &[&[u8]]) {
    let mut i = If::default();
    let mut ad = Ad { chunks: chunks.iter().map(|c| c.to_vec()).collect(), pos: 0, trace: vec![] };
    let r = std::panic::catch_unwind(std::panic::AssertUnwindSafe(|| block_on(i.process::<N, Ad>(&mut ad))));
    println!("PROCESS<{N}> {:?}\n   log={:?}\n   trace={:?}\n   r={:?}", chunks.iter().map(|c| String::from_utf8_lossy(c).to_string()).collect::<Vec<_>>(), i.log, ad.trace, r.map_err(|_| "PANIC"));
}

fn main() {
    for a in std::env::args().skip(1) {
        let s = a.replace("\\n", "\n").replace("\\r", "\r").replace("\\t", "\t");
        run(s.as_bytes());
    }
    if std::env::args().count() > 1 { return; }
    run(b"*IDN?\n");
    run(b"BAD\n*RST\n");
    run(b"SYST:A 1;B?\n");
    run(b"SYST:A 1;:SYST:B?\n");
    run(b"SYST:A 1;*RST;B?\n");
    run(b"SYST:A 1;A 2\nA 3\n");
    run(b"SYST:ERR?;COUN?\n");
    run(b"SYST:ERR:NEXT?;COUN?\n");
    run(b"SYST:B?;ERR:NEXT?\n");
    run(b"FAIL;*RST\n*RST\n");
    run(b"SYST:A 1;\n");
    run(b"SYST:A 1;;A 2\n");
    run(b"SYST:A\n*RST\n");
    run(b"SYST:A 1,2\n*RST\n");
    run(b"SYST:A 'x'\n*RST\n");
    run(b"SYST:B\n*RST\n");
    run(b"SYST:C\n*RST\n");
    run(b"SYST:B? 1;A 2\n");
    run(b"MANY 1,2,3,4,5,6,7,8,9,0\n");
    run(b"MANY 1,2,3,4,5,6,7,8,9,0,1\n*RST\n");
    run(b"MANY 1,2,3,4,5,6,7,8,9,0,1,2\n");
    run(b"SYST:STR 'a\nb'\n");
    run(b"SYST:STR \"a;b,c:d#e'f \"\n");
    run(b"SYST:BLK #15a\n;,c;*RST\n");
    run(b"SYST:A 1;BLK #15a\n;,c;A 2\n");
    run(b"SYST : A 1\n");
    run(b"SYST: A 1\n");
    run(b": SYST:A 1\n");
    run(b"  :SYST:A 1 ; A 2 \n");
    run(b"SYST:A 1 ;A 2\r\n");
    run(b"F32? 1e39\n"); run(b"F32? 1.5\n"); run(b"F32? -0\n"); run(b"F32? .5e1\n"); run(b"F32? 5.\n"); run(b"F32? +5.E+1\n"); run(b"F32? 1e\n");
    run(b"BOOL ON\n"); run(b"BOOL On\n"); run(b"BOOL 1\n"); run(b"BOOL 01\n"); run(b"BOOL 1.0\n"); run(b"BOOL +1\n"); run(b"BOOL TRUE\n");
    run(b"I8 -128\n"); run(b"I8 -129\n"); run(b"I8 #HFF\n"); run(b"I8 #H7F\n"); run(b"I8 +5\n"); run(b"I8 1.0\n"); run(b"I8 1e1\n"); run(b"U8 -0\n"); run(b"U8 256\n"); run(b"U8 #B11111111\n"); run(b"U8 #B111111111\n");run(b"U8 #Q377\n"); run(b"U8 #Q400\n");run(b"U8 0000255\n");
    run(b"U8 #H+1\n"); run(b"I8 #H-1\n");
    run(b"*idn?\n"); run(b"*IDN ?\n"); run(b"*IDN?;*IDN?\n");
    run(b"SYST:A 1"); run(b"SYST:A 1;BLK #15a");
    println!("---- process");
    process::<64>(&[b"*IDN?\n"]);
    process::<64>(&[b"BAD\n", b"*RST\n", b"*RST\n"]);
    process::<64>(&[b"SYST:C\n", b"*RST\n", b"*RST\n"]);
    process::<64>(&[b"SYST:B\n", b"*RST\n", b"*RST\n"]);
    process::<64>(&[b"FAIL\n", b"*RST\n"]);
    process::<64>(&[b"SYST:A 1;BLK #15a\n;,c;A 2\n"]);
    process::<64>(&[b"SYST:BLK #15a\n;,c;A 2\n"]);
    process::<64>(&[b"SYST:STR 'a\nb'\n*RST\n"]);
    process::<8>(&[b"*RST\n*RS", b"T\n"]);
    process::<8>(&[b"*RST\n", b"*RS", b"T\n"]);
    process::<8>(&[b"*IDN?\n"]);
    process::<12>(&[b"*IDN?\n"]);
    process::<1>(&[b"*IDN?\n"]);
}

use microscpi::{self as scpi, ErrorCommands, ErrorQueue, Interface, StaticErrorQueue};
pub struct RecQ<const Q: usize> { q: StaticErrorQueue<Q>, pushed: Vec<scpi::Error> }
impl<const Q: usize> Default for RecQ<Q> { fn default() -> Self { RecQ { q: StaticErrorQueue::new(), pushed: vec![] } } }
impl<const Q: usize> ErrorQueue for RecQ<Q> {
    fn error_count(&self) -> usize { self.q.error_count() }
    fn push_error(&mut self, e: scpi::Error) { self.pushed.push(e); self.q.push_error(e) }
    fn pop_error(&mut self) -> Option<scpi::Error> { self.q.pop_error() }
}
pub struct Fx<const Q: usize> { q: RecQ<Q> }
impl<const Q: usize> ErrorCommands for Fx<Q> { fn error_queue(&mut self) -> &mut impl ErrorQueue { &mut self.q } }
#[scpi::interface(ErrorCommands)]
impl<const Q: usize> Fx<Q> {
    #[scpi(cmd = "FAIL")] fn fail(&mut self, n: i16) -> Result<(), scpi::Error> { Err(scpi::Error::Custom(n, "bo\"om")) }
    #[scpi(cmd = "ECHO?")] fn echo<'a>(&mut self, s: &'a str) -> Result<(&'a str, u8), scpi::Error> { Ok((s, 1)) }
}
fn main() {
    let mut f: Fx<2> = Fx { q: RecQ::default() };
    let mut out: heapless::Vec<u8, 200> = heapless::Vec::new();
    {
    let fut = f.run(b"FAIL 5\nFAIL 6\nFAIL 7\nSYST:ERR:COUN?\nSYST:ERR?;ERR?;ERR?\nECHO? 'hi'\n", &mut out);
    // trivial block_on
    use std::task::*; use std::pin::pin; use std::future::Future;
    fn nw() -> Waker { fn c(_: *const ()) -> RawWaker { RawWaker::new(std::ptr::null(), &VT) } fn n(_: *const ()) {} static VT: RawWakerVTable = RawWakerVTable::new(c, n, n, n); unsafe { Waker::from_raw(RawWaker::new(std::ptr::null(), &VT)) } }
    let w = nw(); let mut cx = Context::from_waker(&w); let mut fut = pin!(fut);
    loop { if let Poll::Ready(_) = fut.as_mut().poll(&mut cx) { break; } }
    }
    println!("{:?} pushed={:?}", String::from_utf8_lossy(&out), f.q.pushed);
}

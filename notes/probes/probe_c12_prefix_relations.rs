use microscpi::{self as scpi, ErrorHandler, Interface};
use microscpi::parser::{parse, ParseError};
#[derive(Default)]
pub struct If;
impl ErrorHandler for If { fn handle_error(&mut self, _e: scpi::Error) {} }
#[scpi::interface]
impl If {
    #[scpi(cmd = "*A")] async fn idn(&mut self) -> Result<(), scpi::Error> { Ok(()) }
    #[scpi(cmd = "A:H")] async fn a(&mut self) -> Result<(), scpi::Error> { Ok(()) }
    #[scpi(cmd = "A:[E]:A?")] async fn b(&mut self) -> Result<(), scpi::Error> { Ok(()) }
    #[scpi(cmd = "H")] async fn c(&mut self) -> Result<(), scpi::Error> { Ok(()) }
}
fn verdict(r: &Result<(&[u8], Option<microscpi::parser::CommandCall>), ParseError>) -> String {
    match r { Ok((rem, c)) => format!("Ok(rem={}, {:?})", rem.len(), c.as_ref().map(|c| (c.node as *const _ as usize, c.header.map(|h| h as *const _ as usize), c.query, c.args.clone(), c.terminated))), Err(ParseError::Incomplete) => "Inc".into(), Err(e) => format!("Err") }
}
fn main() {
    let root = If.root_node();
    let sigma: &[u8] = b"A*:;, \n?#1H'\".e+2";
    let maxlen: usize = std::env::args().nth(1).map(|s| s.parse().unwrap()).unwrap_or(5);
    let mut conts: Vec<Vec<u8>> = vec![];
    for &a in sigma { conts.push(vec![a]); for &b in sigma { conts.push(vec![a,b]); for &c in sigma { conts.push(vec![a,b,c]); } } }
    let mut viol1 = 0u64; let mut viol2 = 0u64; let mut viol3 = 0u64; let mut total = 0u64;
    let mut shown = 0;
    let mut x: Vec<u8> = vec![];
    let mut idx: Vec<usize> = vec![];
    // enumerate all strings up to maxlen
    fn rec(x: &mut Vec<u8>, sigma: &[u8], maxlen: usize, f: &mut dyn FnMut(&[u8])) { f(x); if x.len() == maxlen { return; } for &s in sigma { x.push(s); rec(x, sigma, maxlen, f); x.pop(); } }
    let _ = idx;
    rec(&mut x, sigma, maxlen, &mut |x: &[u8]| {
        total += 1;
        let r = parse(root, root, x);
        match &r {
            Ok((rem, call)) => {
                if !x.is_empty() && rem.len() >= x.len() { viol1 += 1; println!("NOCONSUME {:?}", String::from_utf8_lossy(x)); }
                let v0 = format!("{:?}", call.as_ref().map(|c| (c.node as *const _ as usize, c.header.map(|h| h as *const _ as usize), c.query, c.args.clone(), c.terminated)));
                let consumed = x.len() - rem.len();
                for y in conts.iter() {
                    let mut xy = x.to_vec(); xy.extend_from_slice(y);
                    let r2 = parse(root, root, &xy);
                    let ok = match &r2 { Ok((rem2, call2)) => { xy.len() - rem2.len() == consumed && format!("{:?}", call2.as_ref().map(|c| (c.node as *const _ as usize, c.header.map(|h| h as *const _ as usize), c.query, c.args.clone(), c.terminated))) == v0 }, _ => false };
                    if !ok { viol1 += 1; if shown < 40 { shown += 1; println!("V1 x={:?} y={:?} : {} -> {}", String::from_utf8_lossy(x), String::from_utf8_lossy(y), verdict(&r), verdict(&r2)); } }
                }
            }
            Err(ParseError::Incomplete) => {
                // incomplete only when the input ends inside a unit: crude - x contains no newline outside...; report those containing '\n' or ';'
                if x.contains(&b'\n') { viol3 += 1; if true { println!("V3 Inc with newline x={:?}", String::from_utf8_lossy(x)); } }
            }
            Err(_) => {
                if x.last() == Some(&b'\n') {
                    for y in conts.iter() {
                        let mut xy = x.to_vec(); xy.extend_from_slice(y);
                        let r2 = parse(root, root, &xy);
                        if r2.is_ok() { viol2 += 1; println!("V2 x={:?}", String::from_utf8_lossy(x)); break; }
                    }
                }
            }
        }
    });
    println!("total={total} viol1={viol1} viol2={viol2} viol3={viol3}");
}

use microscpi::{self as scpi, Adapter, ErrorHandler, Interface};
use std::future::Future;
use std::pin::pin;
use std::task::{Context, Poll, RawWaker, RawWakerVTable, Waker};
fn noop_waker() -> Waker {
    fn clone(_: *const ()) -> RawWaker { RawWaker::new(std::ptr::null(), &VT) }
    fn noop(_: *const ()) {}
    static VT: RawWakerVTable = RawWakerVTable::new(clone, noop, noop, noop);
    unsafe { Waker::from_raw(RawWaker::new(std::ptr::null(), &VT)) }
}
fn block_on<F: Future>(f: F) -> F::Output {
    let mut f = pin!(f); let w = noop_waker(); let mut cx = Context::from_waker(&w);
    loop { if let Poll::Ready(v) = f.as_mut().poll(&mut cx) { return v; } }
}
#[derive(Default)]
pub struct If { log: Vec<String> }
impl ErrorHandler for If { fn handle_error(&mut self, e: scpi::Error) { self.log.push(format!("ERR {}", e.number())); } }
#[scpi::interface]
impl If {
    #[scpi(cmd = "*IDN?")] async fn idn(&mut self) -> Result<&str, scpi::Error> { self.log.push("idn".into()); Ok("AB") }
    #[scpi(cmd = "*RST")] async fn rst(&mut self) -> Result<(), scpi::Error> { self.log.push("rst".into()); Ok(()) }
    #[scpi(cmd = "SYSTem:A")] async fn sa(&mut self, v: i32) -> Result<(), scpi::Error> { self.log.push(format!("sys:a {v}")); Ok(()) }
    #[scpi(cmd = "SYSTem:B?")] async fn sb(&mut self) -> Result<u8, scpi::Error> { self.log.push("sys:b?".into()); Ok(7) }
    #[scpi(cmd = "SYSTem:BLK")] async fn sblk(&mut self, v: &[u8]) -> Result<(), scpi::Error> { self.log.push(format!("sys:blk {:?}", v)); Ok(()) }
    #[scpi(cmd = "SYSTem:STR")] async fn sstr(&mut self, v: &str) -> Result<(), scpi::Error> { self.log.push(format!("sys:str {:?}", v)); Ok(()) }
    #[scpi(cmd = "BLK")] async fn blk(&mut self, v: &[u8]) -> Result<(), scpi::Error> { self.log.push(format!("root:blk {:?}", v)); Ok(()) }
    #[scpi(cmd = "A")] async fn a(&mut self, v: i32) -> Result<(), scpi::Error> { self.log.push(format!("root:a {v}")); Ok(()) }
    #[scpi(cmd = "FAIL")] async fn fail(&mut self) -> Result<(), scpi::Error> { self.log.push("fail".into()); Err(scpi::Error::Custom(77, "boom")) }
    #[scpi(cmd = "LONG?")] async fn long(&mut self) -> Result<&str, scpi::Error> { self.log.push("long".into()); Ok("0123456789012345678901234567890123456789") }
}
struct Ad { data: Vec<u8>, pos: usize, sizes: Vec<usize>, si: usize, out: Vec<u8> }
impl Adapter for Ad {
    type Error = ();
    async fn read(&mut self, dst: &mut [u8]) -> Result<usize, ()> {
        if self.pos >= self.data.len() { return Err(()); }
        let want = if self.sizes.is_empty() { 1 } else { let s = self.sizes[self.si % self.sizes.len()]; self.si += 1; s };
        let n = want.min(dst.len()).min(self.data.len() - self.pos);
        dst[..n].copy_from_slice(&self.data[self.pos..self.pos + n]); self.pos += n; Ok(n)
    }
    async fn write(&mut self, src: &[u8]) -> Result<(), ()> { self.out.extend_from_slice(src); Ok(()) }
    async fn flush(&mut self) -> Result<(), ()> { Ok(()) }
}
struct Rng(u64);
impl Rng { fn next(&mut self) -> u64 { self.0 ^= self.0 << 13; self.0 ^= self.0 >> 7; self.0 ^= self.0 << 17; self.0 } fn below(&mut self, n: usize) -> usize { (self.next() % n as u64) as usize } }
fn proc_n(n: usize, data: &[u8], sizes: &[usize]) -> Result<(Vec<String>, Vec<u8>), String> {
    let mut i = If::default();
    let mut ad = Ad { data: data.to_vec(), pos: 0, sizes: sizes.to_vec(), si: 0, out: vec![] };
    let r = std::panic::catch_unwind(std::panic::AssertUnwindSafe(|| {
        macro_rules! go { ($($n:literal)*) => { match n { $($n => { let _ = block_on(i.process::<$n, Ad>(&mut ad)); })* _ => unreachable!() } } }
        go!(1 2 3 4 5 6 7 8 9 10 11 12 13 14 15 16 17 20 24 31 32 33 48 64 100);
    }));
    if r.is_err() { return Err("PANIC".into()); }
    Ok((i.log, ad.out))
}
fn run_per_msg<const N: usize>(msgs: &[Vec<u8>]) -> (Vec<String>, Vec<u8>) {
    let mut i = If::default(); let mut out = vec![];
    for m in msgs { let mut hv: heapless::Vec<u8, N> = heapless::Vec::new(); block_on(i.run(m, &mut hv)); out.extend_from_slice(&hv); }
    (i.log, out)
}
fn main() {
    let seed: u64 = std::env::args().nth(1).map(|s| s.parse().unwrap()).unwrap_or(1);
    let iters: usize = std::env::args().nth(2).map(|s| s.parse().unwrap()).unwrap_or(20000);
    let mode: String = std::env::args().nth(3).unwrap_or("mixed".into());
    let mut rng = Rng(seed.wrapping_mul(0x9E3779B97F4A7C15) | 1);
    let good: &[&[u8]] = &[b"*IDN?\n", b"*RST\n", b"SYST:A 1\n", b"SYST:A 1;B?\n", b"A 5\n", b":SYST:B?;:A 3\n", b"SYST:B?;A 2;*RST\n", b"\n", b"  \n", b"A 1;\n", b"LONG?\n", b"SYST:STR 'x;y'\n", b"BLK #13a;c\n", b"SYST:A 1;BLK #12ab;A 2\n"];
    let bad: &[&[u8]] = &[b"BAD\n", b"SYST:C\n", b"SYST:B\n", b"SYST:A\n", b"A 'x'\n", b"A 1 2\n", b"FAIL\n", b"A 1;BAD;A 2\n", b"A 1;FAIL;A 2\n", b"A 1;SYST:A;A 2\n", b"A,1\n", b"*IDN?x\n", b"A 1,2,3,4,5,6,7,8,9,0,1,2\n", b"@\n", b"A 1e\n"];
    let nl: &[&[u8]] = &[b"SYST:STR 'a\nb'\n", b"BLK #13a\nc\n", b"SYST:A 1;BLK #13a\nc;A 2\n", b"SYST:A 1;STR \"\n\n\";A 2\n", b"SYST:BLK #11\n;A 4\n"];
    let garbage: &[&[u8]] = &[b"'", b"\"", b"#", b"#2", b"#19", b";", b":", b",", b"\n", b" ", b"A", b"*", b"?", b"1", b"#H", b"SYST", b"\xff", b"\x00"];
    let ns = [1usize,2,3,4,5,6,7,8,9,10,11,12,13,14,15,16,17,20,24,31,32,33,48,64,100];
    let mut fails = 0; let mut cmp_run = 0; let mut nontrivial = 0;
    for it in 0..iters {
        let k = 1 + rng.below(6);
        let mut msgs: Vec<Vec<u8>> = vec![];
        let mut plain = true;
        for _ in 0..k {
            let c = rng.below(100);
            let m: Vec<u8> = match mode.as_str() {
                "garbage" => { let mut v = vec![]; for _ in 0..1 + rng.below(8) { let c = rng.below(10); if c < 4 { v.extend_from_slice(garbage[rng.below(garbage.len())]); } else if c < 7 { v.extend_from_slice(good[rng.below(good.len())]); } else if c < 9 { v.extend_from_slice(bad[rng.below(bad.len())]); } else { v.extend_from_slice(nl[rng.below(nl.len())]); } } plain = false; v }
                _ => if c < 50 { good[rng.below(good.len())].to_vec() } else if c < 85 { bad[rng.below(bad.len())].to_vec() } else { plain = false; nl[rng.below(nl.len())].to_vec() }
            };
            msgs.push(m);
        }
        let stream: Vec<u8> = msgs.concat();
        let maxlen = msgs.iter().map(|m| m.len()).max().unwrap();
        let n = ns[rng.below(ns.len())];
        let base = proc_n(n, &stream, &[]);
        let mut sizes: Vec<usize> = (0..1 + rng.below(6)).map(|_| match rng.below(5) { 0 => 0, 1 => 1, 2 => n, 3 => 1 + rng.below(n), _ => 1 + rng.below(4) }).collect();
        if sizes.iter().all(|&s| s == 0) { sizes.push(1); }
        let alt = proc_n(n, &stream, &sizes);
        if base != alt { fails += 1; if fails < 15 { println!("CHUNK-DIFF it={it} n={n} stream={:?} sizes={:?}\n  base={:?}\n  alt ={:?}", String::from_utf8_lossy(&stream), sizes, base, alt); } }
        if base.is_err() { fails += 1; if fails < 15 { println!("PANIC n={n} stream={:?}", String::from_utf8_lossy(&stream)); } }
        if plain && maxlen <= n {
            cmp_run += 1;
            macro_rules! go { ($($n:literal)*) => { match n { $($n => run_per_msg::<$n>(&msgs),)* _ => unreachable!() } } }
            let r = go!(1 2 3 4 5 6 7 8 9 10 11 12 13 14 15 16 17 20 24 31 32 33 48 64 100);
            if let Ok(b) = &base { if !b.0.is_empty() { nontrivial += 1; } if *b != r { fails += 1; if fails < 15 { println!("RUN-DIFF n={n} msgs={:?}\n  proc={:?}\n  run ={:?}", msgs.iter().map(|m| String::from_utf8_lossy(m).to_string()).collect::<Vec<_>>(), b, r); } } }
        }
    }
    println!("iters={iters} fails={fails} cmp_run={cmp_run} nontrivial={nontrivial}");
}

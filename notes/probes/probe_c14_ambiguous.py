import random, sys
R=random.Random(int(sys.argv[1])); K=int(sys.argv[2])
kinds=[
 ("A:BCd","A:BCd"), ("ABcd","AB"), ("SYSTem:X","SYST:X"), ("SYSTem:X","SYSTEM:X"), ("[A]:B","B"), ("A:[B]","A"), ("A:[B]:C","A:C"),
 ("[A]:C","[B]:C"), ("A:[B]:[C]:D","A:D"), ("TeST","TST"), ("*IDN","*IDN"), ("*ABc","*AB"), ("Ab1_x:Q","AB1_X:Q"), ("A:B:[C]","A:[D]:B"),
]
twins=[
 ("A:BCd","A:BCe"), ("ABcd","ABC"), ("SYSTem:X","SYS:X"), ("SYSTem:X","SYSTEMS:X"), ("[A]:B","A"), ("A:[B]","A:[C]:D"), ("A:[B]:C","A:D"),
 ("[A]:C","[B]:D"), ("A:[B]:[C]:D","A:E"), ("TeST","TS"), ("*IDN","*IDM"), ("*ABc","*A"), ("Ab1_x:Q","AB1_:Q"), ("A:B:[C]","A:[D]:E"),
]
def emit(pairs, fn, std=False):
    out=["#![allow(warnings)]\nuse microscpi as scpi;\n"]
    lines={}
    for k in range(K):
        a,b=pairs[k%len(pairs)]
        q = "?" if (k//len(pairs))%2 else ""
        start=sum(s.count("\n")+1 for s in out)+1
        out.append(f"pub mod m{k} {{ use super::*; #[derive(Default)] pub struct If;\n impl scpi::ErrorHandler for If {{ fn handle_error(&mut self, e: scpi::Error) {{}} }}\n #[scpi::interface]\n impl If {{\n  #[scpi(cmd = \"OTHer:X\")] pub fn h0(&mut self) -> Result<(), scpi::Error> {{ Ok(()) }}\n  #[scpi(cmd = \"{a}{q}\")] pub fn h1(&mut self) -> Result<(), scpi::Error> {{ Ok(()) }}\n  #[scpi(cmd = \"{b}{q}\")] pub async fn h2(&mut self) -> Result<(), scpi::Error> {{ Ok(()) }}\n }}\n}}")
        end=sum(s.count("\n")+1 for s in out)
        lines[k]=(start,end)
    open(fn,"w").write("\n".join(out))
    return lines
import json
la=emit(kinds,"src/lib_a.rs"); lb=emit(twins,"src/lib_b.rs")
json.dump(la,open("lines_a.json","w"))

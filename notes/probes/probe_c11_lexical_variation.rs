use microscpi::{self as scpi, ErrorHandler, Interface};
use std::future::Future; use std::pin::pin; use std::task::*;
fn nw() -> Waker { fn c(_: *const ()) -> RawWaker { RawWaker::new(std::ptr::null(), &VT) } fn n(_: *const ()) {} static VT: RawWakerVTable = RawWakerVTable::new(c, n, n, n); unsafe { Waker::from_raw(RawWaker::new(std::ptr::null(), &VT)) } }
fn block_on<F: Future>(f: F) -> F::Output { let mut f = pin!(f); let w = nw(); let mut cx = Context::from_waker(&w); loop { if let Poll::Ready(v) = f.as_mut().poll(&mut cx) { return v; } } }
#[derive(Default)]
pub struct If { log: Vec<String> }
impl ErrorHandler for If { fn handle_error(&mut self, e: scpi::Error) { self.log.push(format!("ERR {}", e.number())); } }
#[scpi::interface]
impl If {
    #[scpi(cmd = "*IDN?")] async fn idn(&mut self) -> Result<&str, scpi::Error> { self.log.push("idn".into()); Ok("AB") }
    #[scpi(cmd = "SYSTem:TeST:A")] async fn sa(&mut self, v: i32, s: &str) -> Result<(), scpi::Error> { self.log.push(format!("sys:a {v} {s:?}")); Ok(()) }
    #[scpi(cmd = "SYSTem:B?")] async fn sb(&mut self, b: &[u8], x: bool) -> Result<u8, scpi::Error> { self.log.push(format!("sys:b? {b:?} {x}")); Ok(7) }
    #[scpi(cmd = "[SYSTem]:Cc3_x")] async fn c(&mut self) -> Result<(), scpi::Error> { self.log.push("c".into()); Ok(()) }
}
struct Rng(u64);
impl Rng { fn next(&mut self) -> u64 { self.0 ^= self.0 << 13; self.0 ^= self.0 >> 7; self.0 ^= self.0 << 17; self.0 } fn below(&mut self, n: usize) -> usize { (self.next() % n as u64) as usize } }
fn ws(r: &mut Rng, min: usize) -> Vec<u8> { let n = min + if r.below(3) == 0 { r.below(3) } else { 0 }; (0..n).map(|_| { let b = r.below(32) as u8; if b >= 10 { b + 1 } else { b } }).collect() }
fn cases(r: &mut Rng, s: &str) -> String { s.chars().map(|c| if r.below(2) == 0 { c.to_ascii_lowercase() } else { c.to_ascii_uppercase() }).collect() }
// unit = (absolute, [ (short,long) ], query, args)
type U = (bool, Vec<(&'static str, &'static str)>, bool, Vec<&'static [u8]>);
fn render(r: &mut Rng, units: &[U], vary: bool) -> Vec<u8> {
    let mut o = vec![];
    for (k, u) in units.iter().enumerate() {
        if vary { o.extend(ws(r, 0)); }
        if u.0 { o.push(b':'); }
        for (j, m) in u.1.iter().enumerate() { if j > 0 { o.push(b':'); } let s = if vary && r.below(2) == 0 { m.1 } else { m.0 }; let s = if vary { cases(r, s) } else { s.to_string() }; o.extend(s.bytes()); }
        if u.2 { o.push(b'?'); }
        if !u.3.is_empty() { if vary { o.extend(ws(r, 1)); } else { o.push(b' '); } }
        for (j, a) in u.3.iter().enumerate() { if j > 0 { if vary { o.extend(ws(r, 0)); } o.push(b','); if vary { o.extend(ws(r, 0)); } } o.extend_from_slice(a); }
        if vary { o.extend(ws(r, 0)); }
        if k + 1 < units.len() { o.push(b';'); } else { if vary && r.below(2) == 0 { o.push(b'\r'); } o.push(b'\n'); }
    }
    o
}
fn obs(x: &[u8]) -> (Vec<String>, Vec<u8>) { let mut i = If::default(); let mut w: heapless::Vec<u8, 256> = heapless::Vec::new(); block_on(i.run(x, &mut w)); (i.log, w.to_vec()) }
fn main() {
    let mut r = Rng(0x1234567 | 1);
    let sys = ("SYST", "SYSTEM"); let test = ("TST", "TEST"); let a = ("A", "A"); let b = ("B", "B"); let c = ("C3_", "CC3_X"); let idn = ("*IDN", "*IDN");
    let pool: Vec<U> = vec![
        (false, vec![sys, test, a], false, vec![b"12", b"'x y'"]), (true, vec![sys, test, a], false, vec![b"-5", b"\"q,;\""]), (false, vec![sys, b], true, vec![b"#13a;\n", b"ON"]), (false, vec![b], true, vec![b"#10", b"0"]),
        (false, vec![c], false, vec![]), (false, vec![sys, c], false, vec![]), (false, vec![idn], true, vec![]), (false, vec![test, a], false, vec![b"1", b"'z'"]), (false, vec![a], false, vec![b"3", b"''"]),
        (false, vec![sys, test, a], false, vec![b"1"]), (false, vec![sys, b], false, vec![]), (false, vec![sys, test, a], false, vec![b"'s'", b"1"]), (false, vec![b], true, vec![b"#11x", b"MAYBE"]),
    ];
    let mut fails = 0; let mut n = 0;
    for _ in 0..200000 {
        let k = 1 + r.below(3); let units: Vec<U> = (0..k).map(|_| pool[r.below(pool.len())].clone()).collect();
        let base = render(&mut r, &units, false); let var = render(&mut r, &units, true);
        let (o1, o2) = (obs(&base), obs(&var)); n += 1;
        if o1 != o2 { fails += 1; if fails < 10 { println!("DIFF base={:?} var={:?}\n {:?}\n {:?}", String::from_utf8_lossy(&base), String::from_utf8_lossy(&var), o1, o2); } }
    }
    println!("n={n} fails={fails}");
}

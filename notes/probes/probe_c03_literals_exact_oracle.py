import random, struct, sys
from fractions import Fraction
R=random.Random(int(sys.argv[1])); NCASE=int(sys.argv[2])
INTS={"u8":(0,2**8-1),"i8":(-2**7,2**7-1),"u16":(0,2**16-1),"i16":(-2**15,2**15-1),"u32":(0,2**32-1),"i32":(-2**31,2**31-1),"u64":(0,2**64-1),"i64":(-2**63,2**63-1),"usize":(0,2**64-1),"isize":(-2**63,2**63-1)}
def rnd(x,p,emin,emax):
    # x Fraction >=0 ; returns (Fraction value or 'inf')
    if x==0: return Fraction(0)
    n,d=x.numerator,x.denominator
    e=n.bit_length()-d.bit_length()
    if Fraction(2)**e > x: e-=1
    assert Fraction(2)**e <= x < Fraction(2)**(e+1)
    q=Fraction(2)**((emin if e<emin else e)-(p-1))
    m=x/q; fl=m.numerator//m.denominator; rem=m-fl
    if rem>Fraction(1,2) or (rem==Fraction(1,2) and fl%2==1): fl+=1
    v=fl*q
    if v>=Fraction(2)**(emax+1): return 'inf'
    return v
def f32bits(sign,x):
    v=rnd(x,24,-126,127)
    if v=='inf': b=0x7f800000
    else: b=struct.unpack('>I',struct.pack('>f',float(v)))[0]
    return b|(0x80000000 if sign else 0)
def f64bits(sign,x):
    v=rnd(x,53,-1022,1023)
    if v=='inf': b=0x7ff0000000000000
    else: b=struct.unpack('>Q',struct.pack('>d',float(v)))[0]
    return b|(0x8000000000000000 if sign else 0)
def dec_literal_value(s):
    # returns (sign, Fraction)
    t=s; sign=False
    if t[0] in '+-': sign=(t[0]=='-'); t=t[1:]
    if 'e' in t.lower():
        i=t.lower().index('e'); man=t[:i]; ex=int(t[i+1:])
    else: man=t; ex=0
    if '.' in man: a,b=man.split('.')
    else: a,b=man,''
    digits=(a+b) or '0'
    return sign, Fraction(int(digits))*Fraction(10)**(ex-len(b))
def rand_dec():
    s=R.choice(['','','+','-'])
    a=''.join(R.choice('0123456789') for _ in range(R.choice([0,1,1,2,3,5,10,20,25,40])))
    dot=R.random()<0.6
    b=''.join(R.choice('0123456789') for _ in range(R.choice([0,1,2,3,7,17,25,45]))) if dot else ''
    if not a and not b: a='7'
    e=''
    if R.random()<0.5: e=R.choice('eE')+R.choice(['','+','-'])+str(R.choice([0,1,2,5,10,20,37,38,39,44,45,46,50,100,300,307,308,309,323,324,325,400]))
    return s+a+('.' if dot else '')+b+e
def exact_dec(fr):
    # exact decimal expansion of a dyadic Fraction
    n,d=fr.numerator,fr.denominator
    k=d.bit_length()-1
    assert d==1<<k
    num=n*5**k
    s=str(num)
    if k==0: return s
    s=s.rjust(k+1,'0')
    return s[:-k]+'.'+s[-k:]
def midpoint_literal(bits32=True):
    if bits32:
        b=R.getrandbits(31); 
        if (b>>23)==0xff: b&=0x7f7fffff
        f=struct.unpack('>f',struct.pack('>I',b))[0]; b2=b+1
        if (b2>>23)==0xff: return None
        g=struct.unpack('>f',struct.pack('>I',b2))[0]
    else:
        b=R.getrandbits(63)
        if (b>>52)==0x7ff: b&=0x7fefffffffffffff
        f=struct.unpack('>d',struct.pack('>Q',b))[0]; b2=b+1
        if (b2>>52)==0x7ff: return None
        g=struct.unpack('>d',struct.pack('>Q',b2))[0]
    mid=(Fraction(f)+Fraction(g))/2
    s=exact_dec(mid)
    if len(s)>900: return None
    c=R.random()
    if c<0.34: return s
    if c<0.67: return s+'1'
    # decrement last digit: append ...9 style: lower by tiny amount
    t=s.rstrip('0') if '.' in s else s+'.'
    # find last nonzero digit and decrement
    lst=list(t if '.' in t else t)
    i=len(lst)-1
    while i>=0 and lst[i] in '.0': i-=1
    if i<0: return s
    lst[i]=str(int(lst[i])-1)
    return ''.join(lst)+'9'
cases=[]
def add(ty,lit,exp): cases.append((ty,lit,exp))
for ty,(lo,hi) in INTS.items():
    for _ in range(NCASE):
        c=R.random()
        v=R.choice([lo,lo-1,hi,hi+1,0,1,-1,hi-1,lo+1,R.randint(lo,hi),R.randint(lo-2**70,hi+2**70),2**R.randint(0,66),2**R.randint(0,66)-1])
        radix=R.choice(['d','d','H','Q','B'])
        if radix=='d':
            s=('-' if v<0 else R.choice(['','+']))+('0'*R.choice([0,0,1,5]))+str(abs(v))
            if v==0 and R.random()<0.3: s='-0'
            sign,val=dec_literal_value(s)
            if s.startswith('-') and lo==0:
                exp=('lenient',-120,0) if v==0 else ('err',-120)
            else: exp=('int',v) if lo<=v<=hi else ('err',-120)
        else:
            v=abs(v)
            digs={'H':format(v,R.choice(['x','X'])),'Q':format(v,'o'),'B':format(v,'b')}[radix]
            s='#'+R.choice([radix,radix.lower()])+('0'*R.choice([0,0,2]))+digs
            exp=('int',v) if v<=hi else ('err',-120)
        add(ty,s,exp)
    # decimal reals into ints
    for _ in range(NCASE//4):
        s=rand_dec()
        if not any(ch in s for ch in '.eE'): continue
        sign,val=dec_literal_value(s)
        sv=-val if sign else val
        if sv.denominator==1 and lo<=sv<=hi and not (sign and lo==0): exp=('lenient',-120,int(sv))
        else: exp=('err',-120)
        add(ty,s,exp)
    for lit in ["'1'",'"1"','ON','#13abc','MAX']: add(ty,lit,('err',-104))
for ty in ['f32','f64']:
    for _ in range(NCASE*3):
        s=rand_dec() if R.random()<0.6 else None
        if s is None:
            s=midpoint_literal(ty=='f32')
            if s is None: continue
            if R.random()<0.5: s='-'+s
        sign,val=dec_literal_value(s)
        bits=f32bits(sign,val) if ty=='f32' else f64bits(sign,val)
        inf=(bits&0x7fffffff)==0x7f800000 if ty=='f32' else (bits&0x7fffffffffffffff)==0x7ff0000000000000
        add(ty,s,('finf' if inf else 'f',bits, val==0))
    for lit in ["'1'",'ON','#13abc','INF','NAN']: add(ty,lit,('err',-104))
    for lit in ['#H10','#Q7','#B1']: add(ty,lit,('lenient_kind',))
for lit,exp in [('ON',1),('OFF',0),('on',1),('off',0),('1',1),('0',0)]: add('bool',lit,('int',exp))
for lit in ['MAYBE','O','ONN','OF']: add('bool',lit,('err',-224))
for lit in ["'ON'",'#11a','#H1']: add('bool',lit,('errset',))
for lit in ['On','TRUE','false','2','-1','01','1.0','+1']: add('bool',lit,('boollenient',))
lines=[]
for ty,lit,exp in cases:
    if exp[0]=='int': e=f'E::I({exp[1]})'
    elif exp[0]=='err': e=f'E::Err({exp[1]})'
    elif exp[0]=='lenient': e=f'E::Len({exp[1]},{exp[2]})'
    elif exp[0] in('f','finf'): e=f'E::F({exp[1]},{"true" if exp[0]=="finf" else "false"},{"true" if exp[2] else "false"})'
    else: e='E::Any'
    lines.append(f'("{ty}",r##"{lit}"##,{e}),')
open('src/cases.rs','w').write('pub static CASES:&[(&str,&str,E)]=&[\n'+'\n'.join(lines)+'\n];\n')
print(len(cases))

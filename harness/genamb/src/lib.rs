//! Ambiguous declaration sets: every module in here must be rejected by the macro (C14).
include!(concat!(env!("OUT_DIR"), "/amb_all.rs"));

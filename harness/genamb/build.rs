//! Emits K2 ambiguous declaration sets (the same ones whose twins `gen` compiles), one file each.

use vcore::tape::Tape;

fn splitmix(seed: u64, stream: u64, n: usize) -> Vec<u32> {
    let mut x = seed.wrapping_mul(0x9e37_79b9_7f4a_7c15) ^ stream.wrapping_mul(0xbf58_476d_1ce4_e5b9) ^ 0x1234_5678_9abc_def0;
    (0..n)
        .map(|_| {
            x = x.wrapping_add(0x9e37_79b9_7f4a_7c15);
            let mut z = x;
            z = (z ^ (z >> 30)).wrapping_mul(0xbf58_476d_1ce4_e5b9);
            z = (z ^ (z >> 27)).wrapping_mul(0x94d0_49bb_1331_11eb);
            ((z ^ (z >> 31)) >> 32) as u32
        })
        .collect()
}

fn main() {
    println!("cargo:rerun-if-env-changed=VERIF_GEN_SEED");
    println!("cargo:rerun-if-env-changed=VERIF_GEN_K2");
    println!("cargo:rerun-if-env-changed=VERIF_GEN_SPEC_FILE");
    println!("cargo:rerun-if-changed=build.rs");
    let out = std::env::var("OUT_DIR").unwrap();
    let seed: u64 = std::env::var("VERIF_GEN_SEED").ok().and_then(|s| s.parse().ok()).unwrap_or(0);
    let k2: usize = std::env::var("VERIF_GEN_K2").ok().and_then(|s| s.parse().ok()).unwrap_or(4);
    let mut specs = Vec::new();
    let mut meta = Vec::new();
    if let Ok(path) = std::env::var("VERIF_GEN_SPEC_FILE") {
        if !path.is_empty() {
            println!("cargo:rerun-if-changed={}", path);
            let v: serde_json::Value = serde_json::from_str(&std::fs::read_to_string(&path).expect("spec file")).expect("spec json");
            let spec_json = v.pointer("/case/spec").cloned().unwrap_or(v);
            let mut s = vcore::codegen::spec_from_json(&spec_json);
            s.name = "g0".into();
            meta.push(serde_json::json!({ "kind": "replay", "needs_expansion": false, "spec": vcore::codegen::spec_to_json(&s) }));
            specs.push(s);
        }
    }
    let mut i = 0u64;
    while meta.iter().all(|m| m["kind"] != "replay") && specs.len() < k2 {
        let tape = splitmix(seed ^ 0x7715, i, 4000);
        i += 1;
        let mut t = Tape::new(&tape);
        let name = format!("g{}", specs.len());
        if let Some(a) = vcore::treegen::gen_ambiguous_kind(&mut t, &name, Some(specs.len())) {
            meta.push(serde_json::json!({ "kind": a.kind, "needs_expansion": a.needs_expansion,
                "spec": vcore::codegen::spec_to_json(&a.ambiguous) }));
            specs.push(a.ambiguous);
        }
    }
    let mut all = String::new();
    for (i, s) in specs.iter().enumerate() {
        assert!(vcore::spec::Model::build(s).is_err(), "generated set must be ambiguous");
        let file = format!("{}/amb_{}.rs", out, i);
        std::fs::write(&file, vcore::codegen::emit_module(s)).unwrap();
        all.push_str(&format!("include!(\"{}\");\n", file));
    }
    std::fs::write(format!("{}/amb_all.rs", out), all).unwrap();
    std::fs::write(format!("{}/amb_meta.json", out), serde_json::to_string(&meta).unwrap()).unwrap();
}

#![no_main]
//! Coverage-guided target for C12: x | y split chosen by the fuzzer, prefix/extension oracles inside.
use libfuzzer_sys::fuzz_target;
use std::sync::OnceLock;

static NODES: OnceLock<Vec<&'static fixture::Node>> = OnceLock::new();

fuzz_target!(|data: &[u8]| {
    let nodes = NODES.get_or_init(fixture::fuzzing::mini_nodes);
    if let Err(msg) = fixture::fuzzing::parse_case(nodes, data) {
        let body = serde_json::json!({
            "property": "C12", "check": "c12.fuzz_replay", "kind": "fuzz-bytes", "message": msg,
            "case": { "hex": vcore::runner::hex(data) },
        });
        let path = vcore::runner::write_replay("C12", "c12.fuzz_replay", &body);
        eprintln!("FUZZ-VIOLATION property=C12 replay={}", path.display());
        panic!("{}", msg);
    }
});

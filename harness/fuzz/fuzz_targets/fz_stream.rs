#![no_main]
//! Coverage-guided target for C05 and C07: the semantic oracles are inside `stream_case`.
use libfuzzer_sys::fuzz_target;

fn save(data: &[u8], msg: &str) {
    let prop = if msg.starts_with("C07") { "C07" } else { "C05" };
    let check = if prop == "C07" { "c07.fuzz_replay" } else { "c05.fuzz_replay" };
    let body = serde_json::json!({
        "property": prop, "check": check, "kind": "fuzz-bytes", "message": msg,
        "case": { "hex": vcore::runner::hex(data) },
    });
    let path = vcore::runner::write_replay(prop, check, &body);
    eprintln!("FUZZ-VIOLATION property={} replay={}", prop, path.display());
}

fn mode() -> (bool, bool) {
    // FUZZ_ORACLE=C05 | C07 selects the active oracle (default: both)
    match std::env::var("FUZZ_ORACLE").ok().as_deref() {
        Some("C05") => (true, false),
        Some("C07") => (false, true),
        _ => (true, true),
    }
}

fuzz_target!(|data: &[u8]| {
    let (c05, c07) = mode();
    let r = std::panic::catch_unwind(|| fixture::fuzzing::stream_case_for(data, c05, c07));
    match r {
        Ok(Ok(_)) => {}
        Ok(Err(msg)) => {
            save(data, &msg);
            panic!("{}", msg);
        }
        Err(_) => {
            if c05 {
                save(data, "C05: panic inside run/process");
                std::process::abort();
            }
            // a panic is C05's business: ignore it in a C07 campaign so that the search goes on
        }
    }
});

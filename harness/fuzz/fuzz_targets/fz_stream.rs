#![no_main]
//! Coverage-guided target for C05 and C07: the semantic oracles are inside `stream_case`.
use libfuzzer_sys::fuzz_target;

fn save(data: &[u8], msg: &str) {
    let prop = if msg.starts_with("C07") { "C07" } else { "C05" };
    let check = if prop == "C07" { "c07.fuzz_replay" } else { "c05.fuzz_replay" };
    let body = serde_json::json!({
        "property": prop, "check": check, "kind": "fuzz-bytes", "message": msg,
        "case": { "hex": vcore::runner::hex(data) },
    });
    let path = vcore::runner::write_replay(prop, check, &body);
    eprintln!("FUZZ-VIOLATION property={} replay={}", prop, path.display());
}

fuzz_target!(|data: &[u8]| {
    let r = std::panic::catch_unwind(|| fixture::fuzzing::stream_case(data));
    match r {
        Ok(Ok(_)) => {}
        Ok(Err(msg)) => {
            save(data, &msg);
            panic!("{}", msg);
        }
        Err(_) => {
            save(data, "C05: panic inside run/process");
            panic!("C05: panic inside run/process");
        }
    }
});

//! Property functions that are independent of the concrete interface type: the executors are
//! injected as closures so that the same code serves the fixed fixtures and generated interfaces.

use serde_json::json;
use vcore::ast::{render_all, show_log, Ev, Lit, Message, Unit};
use vcore::gen::{self, Env, FailSpec, GenCfg, Index, MatchCfg, UnitKind};
use vcore::runner::{esc, Stats};
use vcore::spec::{Header, Model, Target, Ty};
use vcore::tape::Tape;

use crate::{ProcOut, RunOut};

pub struct Exec<'a> {
    /// run(whole buffer) with the recording writer
    pub run_rec: &'a (dyn Fn(&Env, &[u8], &[u8]) -> RunOut + Sync),
    /// process(stream) with buffer size `n` (the closure maps it to an instantiated size)
    pub process: &'a (dyn Fn(&Env, usize, &[u8], &[u8], &[usize]) -> ProcOut + Sync),
    /// instantiated buffer sizes
    pub sizes: &'a [usize],
    pub qcap: usize,
}

/// Ordering clause of C02: a handler finishes before anything else happens.
pub fn check_handler_ordering(log: &[Ev]) -> Result<(), String> {
    let mut open: Option<usize> = None;
    for e in log {
        match e {
            Ev::Handler { id, .. } => {
                if let Some(o) = open {
                    return Err(format!("handler {} started before handler {} finished", id, o));
                }
                open = Some(*id);
            }
            Ev::HandlerDone { id } => {
                if open != Some(*id) {
                    return Err(format!("handler {} finished out of order", id));
                }
                open = None;
            }
            Ev::Error { .. } => open = None, // a failing handler returns before `done`
            Ev::Write(_) | Ev::Flush => {
                if let Some(o) = open {
                    return Err(format!("response bytes written while handler {} was still running", o));
                }
            }
            _ => {}
        }
    }
    Ok(())
}

pub fn gen_reads(t: &mut Tape, len: usize, n: usize) -> Vec<usize> {
    let style = t.weighted(&[2, 2, 3, 1]);
    let mut reads = Vec::new();
    let mut total = 0;
    while total < len && reads.len() < 4 * len + 8 {
        let r = match style {
            0 => 1,
            1 => usize::MAX,
            2 => match t.weighted(&[3, 3, 2, 2, 1, 1]) {
                0 => 1,
                1 => t.range(1, 4),
                2 => t.range(1, n.max(1)),
                3 => usize::MAX,
                4 => 0,
                _ => t.range(1, 64),
            },
            _ => t.range(0, 3),
        };
        if r != usize::MAX {
            total += r;
        }
        else {
            total += n.max(1);
        }
        reads.push(r);
    }
    reads
}

/// Upper bound of the response bytes one message of this prediction can produce.
pub fn response_bound(pred: &[gen::PEv]) -> usize {
    let mut worst = 0;
    let mut cur = 0;
    for p in pred {
        match p {
            gen::PEv::Response { canonical, .. } => cur += canonical.len() + 16,
            gen::PEv::ErrNext | gen::PEv::ErrCount | gen::PEv::AnyResponse => cur += 64,
            gen::PEv::EndOfMessage => {
                worst = worst.max(cur);
                cur = 0;
            }
            _ => {}
        }
    }
    worst.max(cur)
}

pub fn show_reads(reads: &[usize]) -> Vec<i64> {
    reads.iter().map(|r| if *r == usize::MAX { -1 } else { *r as i64 }).collect()
}

/// Does the unit at (mi, ui) resolve differently from its context than from the root?
fn context_sensitive(model: &Model, msgs: &[Message]) -> (bool, bool, bool) {
    let mut sensitive = false;
    let mut after_semicolon_end = false;
    let mut single_absolute = false;
    let mut prev_trailing = false;
    for m in msgs {
        if prev_trailing && !m.units.is_empty() {
            after_semicolon_end = true;
        }
        let mut ctx: Vec<String> = Vec::new();
        for (ui, u) in m.units.iter().enumerate() {
            let r = model.resolve(&ctx, &u.header);
            if ui > 0 && !u.header.absolute && !u.header.is_common() {
                let from_root = model.resolve(&[], &u.header);
                if from_root.target != r.target {
                    sensitive = true;
                }
            }
            if u.header.absolute && u.header.mnems.len() == 1 && ui + 1 < m.units.len() {
                single_absolute = true;
            }
            if let Some(c) = r.new_ctx {
                ctx = c;
            }
        }
        prev_trailing = m.trailing_semicolon || m.units.is_empty();
    }
    (sensitive, after_semicolon_end, single_absolute)
}

/// C02: path context follows the compound-message rules; messages are independent; units execute
/// one at a time in order.
pub fn c02_prop(model: &Model, ix: &Index, ex: &Exec, tape: &[u32], st: &mut Stats) -> Result<(), String> {
    let mut t = Tape::new(tape);
    let mut cfg = GenCfg::default();
    cfg.max_units = 5;
    cfg.w_unit = [8, 4, 3, 3];
    cfg.p_trailing_semicolon = 3;
    cfg.p_empty_message = 2;
    cfg.lit.max_payload = 4;
    // now and then payloads with newlines: through process the message is then executed piecewise and
    // the path has to survive the restart
    cfg.lit.newlines = t.chance(1, 4);
    if cfg.lit.newlines {
        // ... in messages without deliberately undefined headers: how much of a *faulty* message with
        // a newline inside a payload is discarded is outside the statements (C06 excludes it)
        cfg.w_unit[3] = 0;
    }
    let env = Env::new(model, ex.qcap);
    let n_msgs = t.range(1, 4);
    let msgs: Vec<Message> = (0..n_msgs).map(|_| gen::gen_message(&mut t, ix, &cfg)).collect();
    // now and then an EMPTY unit inside a message ("A;;B"). IEEE 488.2 allows it, the library today
    // reports a syntax error; either way it must not act as a terminator: accepted are (a) exactly one
    // error there, the rest of the message executed or dropped, or (b) the empty unit ignored with the
    // path kept. (A fault-free, newline-free variant only: see C06 for faulty messages.)
    let mut without_empty: Option<Vec<Message>> = None;
    let mut msgs = msgs;
    let mut kinds: Vec<Vec<UnitKind>> = msgs.iter().map(|m| vec![UnitKind::Normal; m.units.len()]).collect();
    if !cfg.lit.newlines && t.chance(1, 8) {
        let cands: Vec<usize> = (0..msgs.len()).filter(|i| msgs[*i].units.len() >= 2).collect();
        if !cands.is_empty() {
            let mi = cands[t.below(cands.len())];
            let pos = t.range(1, msgs[mi].units.len() - 1);
            without_empty = Some(msgs.clone());
            let mut empty = Unit::new(
                Header {
                    absolute: false,
                    mnems: vec!["EMPTY".into()],
                    query: false,
                },
                vec![],
            );
            empty.raw = Some(if t.chance(1, 2) { Vec::new() } else { b" ".to_vec() });
            msgs[mi].units.insert(pos, empty);
            kinds[mi].insert(pos, UnitKind::Syntax);
        }
    }
    let stream = render_all(&msgs);
    let pred = gen::predict(model, &msgs, Some(&kinds), &env);
    let pred_b = without_empty.as_ref().map(|m| gen::predict(model, m, None, &env));
    let np = t.below(4);
    let pauses: Vec<u8> = (0..np).map(|_| t.below(3) as u8).collect();

    let out = (ex.run_rec)(&env, &pauses, &stream);
    let cfg_log = MatchCfg {
        responses_in_log: true,
        output: None,
        qcap: ex.qcap,
    };
    let first = gen::match_log(&pred, &out.log, &cfg_log);
    let verdict = match (&first, &pred_b) {
        (Err(_), Some(pb)) => gen::match_log(pb, &out.log, &cfg_log).map_err(|e2| {
            format!("neither 'one error at the empty unit' ({}) nor 'empty unit ignored, path kept' ({})", first.clone().unwrap_err(), e2)
        }),
        _ => first.clone(),
    };
    verdict.map_err(|e| format!("run('{}'): {} [log: {}]", esc(&stream), e, show_log(&out.log)))?;
    if pred_b.is_some() {
        st.class("message with an empty unit inside");
    }
    check_handler_ordering(&out.log).map_err(|e| format!("run('{}'): {} [log: {}]", esc(&stream), e, show_log(&out.log)))?;

    let longest = msgs.iter().map(|m| m.rendered().len()).max().unwrap_or(1);
    // process answers into a buffer of N bytes per message: keep N above any possible response
    let need = longest.max(response_bound(&pred));
    if let Some(&n) = ex.sizes.iter().find(|n| **n >= need) {
        let reads = gen_reads(&mut t, stream.len(), n);
        let po = (ex.process)(&env, n, &pauses, &stream, &reads);
        let (_, written) = crate::observation(&po.log, &[]);
        let cfg_out = MatchCfg {
            responses_in_log: false,
            output: Some(written),
            qcap: ex.qcap,
        };
        let first = gen::match_log(&pred, &po.log, &cfg_out);
        let verdict = match (&first, &pred_b) {
            (Err(_), Some(pb)) => gen::match_log(pb, &po.log, &cfg_out),
            _ => first.clone(),
        };
        verdict.map_err(|e| {
            format!(
                "process::<{}>('{}') reads {:?}: {} [log: {}]",
                n,
                esc(&stream),
                show_reads(&reads),
                e,
                show_log(&po.log)
            )
        })?;
    }
    let (sensitive, after_end, single_abs) = context_sensitive(model, &msgs);
    if sensitive {
        st.class("relative unit resolving differently from context and root");
    }
    if after_end {
        st.class("message after one ending in ';' or empty");
    }
    if single_abs {
        st.class("absolute single-mnemonic header followed by a unit");
    }
    if pred.iter().any(|p| matches!(p, gen::PEv::Error(_))) {
        st.class("with an undefined header");
    }
    if sensitive || after_end {
        st.nontrivial(&stream);
    }
    st.sample(|| json!({ "stream": esc(&stream) }));
    Ok(())
}

// -------------------------------------------------------------------------------------------------
// C06
// -------------------------------------------------------------------------------------------------

#[derive(Clone, Copy, Debug, PartialEq, Eq, Hash)]
pub enum Fault {
    Syntax,
    UndefHard,
    UndefSoft,
    Arity,
    Kind,
    Range,
    NotBool,
    HandlerErr,
}

pub const FAULTS: [Fault; 8] = [
    Fault::Syntax,
    Fault::UndefHard,
    Fault::UndefSoft,
    Fault::Arity,
    Fault::Kind,
    Fault::Range,
    Fault::NotBool,
    Fault::HandlerErr,
];

/// Syntactically broken units; none contains a quote or '#'+digit, so nothing is left open.
const SYNTAX_UNITS: &[&[u8]] = &[
    b"A@", b"A 1 2", b"A,1", b"A ,1", b"A 1,,2", b"A?x", b"@", b":", b"A:", b"A::A", b"A 1,", b"A 1e", b"A 1.2.3", b"&A",
    b"A 1,2,3,4,5,6,7,8,9,10,11", b"A -", b"A +", b"A $", b"1", b"A? ?", b"*", b"*?", b"A\x80", b"A 1\xff",
    b"A (1)", b"A=1",
    // a header separator with nothing behind it, also on headers whose handler takes no parameter and
    // on queries (a parser that swallowed the separator would run the handler / answer)
    b"TEST:INIT:", b"TEST:INITIATE :", b":TEST:INIT: ", b"SYST:ERR:?", b"SYST:ERR:COUN:?", b"SYSTEM:VERSION: ?", b"A: ?",
    b"*RST:", b"*OPC:?", b"MEAS:TEMP:?",
];

fn mismatched_literal(t: &mut Tape, ty: Ty) -> Lit {
    match ty {
        Ty::Str => [Lit::Dec("1".into()), Lit::Chars("abc".into()), Lit::Block { ndig: 1, body: b"x".to_vec() }][t.below(3)].clone(),
        Ty::Bytes => [Lit::Dec("1".into()), Lit::Str { quote: b'\'', body: b"x".to_vec() }, Lit::Chars("abc".into())][t.below(3)].clone(),
        _ => [
            Lit::Str { quote: b'"', body: b"1".to_vec() },
            Lit::Chars("abc".into()),
            Lit::Block { ndig: 1, body: b"1".to_vec() },
        ][t.below(3)]
        .clone(),
    }
}

/// Builds one faulty unit of the wanted kind in context `ctx`; `None` if the tree offers no
/// declaration for it.
pub fn gen_faulty_unit(
    t: &mut Tape, model: &Model, ix: &Index, ctx: &[String], cfg: &GenCfg, fault: Fault, failing: &[usize],
) -> Option<(Unit, UnitKind)> {
    let decls = &model.spec.decls;
    let with = |pred: &dyn Fn(&vcore::spec::Decl) -> bool| -> Vec<usize> {
        (0..decls.len()).filter(|i| !failing.contains(i) && pred(&decls[*i])).collect()
    };
    let unit_for = |t: &mut Tape, only: Vec<usize>| -> Option<Unit> {
        if only.is_empty() {
            return None;
        }
        let mut c = cfg.clone();
        c.only = Some(only);
        c.avoid = Vec::new();
        c.w_unit = [6, 3, 2, 0];
        let u = gen::gen_unit(t, ix, ctx, &c);
        match model.resolve(ctx, &u.header).target {
            Some(Target::User(_)) => Some(u),
            _ => None,
        }
    };
    match fault {
        Fault::Syntax => {
            let raw = SYNTAX_UNITS[t.below(SYNTAX_UNITS.len())];
            let mut u = Unit::new(
                Header {
                    absolute: false,
                    mnems: vec!["A".into()],
                    query: false,
                },
                vec![],
            );
            u.raw = Some(raw.to_vec());
            Some((u, UnitKind::Syntax))
        }
        Fault::UndefHard => {
            let mut u = unit_for(t, with(&|_| true))?;
            let k = t.below(u.header.mnems.len());
            if u.header.is_common() {
                u.header.mnems[0] = "*NOPE".into();
            }
            else {
                u.header.mnems[k] = ["NOPE", "XYZ", "Q1"][t.below(3)].into();
            }
            if model.resolve(ctx, &u.header).target.is_some() {
                return None;
            }
            Some((u, UnitKind::Normal))
        }
        Fault::UndefSoft => {
            let mut u = unit_for(t, with(&|_| true))?;
            u.header.query = !u.header.query;
            u.args.clear();
            if model.resolve(ctx, &u.header).target.is_some() {
                return None;
            }
            Some((u, UnitKind::Normal))
        }
        Fault::Arity => {
            // any declaration, also one with the maximum of ten parameters (an eleventh is then one
            // more than the library supports at all)
            let mut u = unit_for(t, with(&|_| true))?;
            if !u.args.is_empty() && t.chance(1, 2) {
                u.args.pop();
            }
            else {
                let extra = t.range(1, 2);
                for _ in 0..extra {
                    u.args.push([Lit::Dec("1".into()), Lit::Chars("X".into()), Lit::Dec("2.5".into())][t.below(3)].clone());
                }
            }
            Some((u, UnitKind::Normal))
        }
        Fault::Kind => {
            let mut u = unit_for(t, with(&|d| d.params.iter().any(|p| *p != Ty::Bool)))?;
            let id = match model.resolve(ctx, &u.header).target {
                Some(Target::User(i)) => i,
                _ => return None,
            };
            let cands: Vec<usize> = (0..decls[id].params.len()).filter(|j| decls[id].params[*j] != Ty::Bool).collect();
            let j = cands[t.below(cands.len())];
            u.args[j] = mismatched_literal(t, decls[id].params[j]);
            Some((u, UnitKind::Normal))
        }
        Fault::Range => {
            let mut u = unit_for(t, with(&|d| d.params.iter().any(|p| p.is_int())))?;
            let id = match model.resolve(ctx, &u.header).target {
                Some(Target::User(i)) => i,
                _ => return None,
            };
            let cands: Vec<usize> = (0..decls[id].params.len()).filter(|j| decls[id].params[*j].is_int()).collect();
            let j = cands[t.below(cands.len())];
            let (lo, hi) = decls[id].params[j].int_bounds();
            u.args[j] = match t.below(3) {
                0 => Lit::Dec((hi + 1).to_string()),
                1 => Lit::Dec((lo - 1).to_string()),
                _ => vcore::lits::nondec_lit(t, (hi + 1) as u128, 16),
            };
            Some((u, UnitKind::Normal))
        }
        Fault::NotBool => {
            let mut u = unit_for(t, with(&|d| d.params.iter().any(|p| *p == Ty::Bool)))?;
            let id = match model.resolve(ctx, &u.header).target {
                Some(Target::User(i)) => i,
                _ => return None,
            };
            let j = decls[id].params.iter().position(|p| *p == Ty::Bool)?;
            u.args[j] = [Lit::Chars("MAYBE".into()), Lit::Dec("2".into()), Lit::Chars("O".into()), Lit::Dec("-1".into())][t.below(4)].clone();
            Some((u, UnitKind::Normal))
        }
        Fault::HandlerErr => {
            if failing.is_empty() {
                return None;
            }
            let mut c = cfg.clone();
            c.only = Some(failing.to_vec());
            c.avoid = Vec::new();
            c.w_unit = [6, 3, 2, 0];
            let u = gen::gen_unit(t, ix, ctx, &c);
            match model.resolve(ctx, &u.header).target {
                Some(Target::User(i)) if failing.contains(&i) => Some((u, UnitKind::Normal)),
                _ => None,
            }
        }
    }
}

/// C06: a faulty message is reported once and never affects later messages.
pub fn c06_prop(model: &Model, ix: &Index, ex: &Exec, tape: &[u32], st: &mut Stats) -> Result<(), String> {
    let mut t = Tape::new(tape);
    let mut env = Env::new(model, ex.qcap);
    // declarations whose handler fails in this case
    let n_decl = model.spec.decls.len();
    let mut failing: Vec<usize> = Vec::new();
    if n_decl > 0 {
        for _ in 0..t.below(3) {
            let id = t.below(n_decl);
            if !failing.contains(&id) {
                failing.push(id);
                env.fail[id] = Some(if t.chance(1, 3) {
                    FailSpec::Std(t.below(6))
                }
                else {
                    FailSpec::Custom(
                        match t.below(4) {
                            0 => -(t.below(400) as i16) - 1,
                            1 => t.below(1000) as i16 + 1,
                            2 => i16::MIN,
                            _ => -200,
                        },
                        t.below(8),
                    )
                });
            }
        }
    }
    let mut cfg = GenCfg::default();
    cfg.max_units = 4;
    cfg.lit.max_payload = 4;
    cfg.avoid = failing.clone();
    cfg.p_empty_message = 1;
    cfg.p_trailing_semicolon = 1;
    let n_msgs = t.range(2, 6);
    let mut msgs: Vec<Message> = Vec::new();
    let mut kinds: Vec<Vec<UnitKind>> = Vec::new();
    let mut faults: Vec<Option<(Fault, usize, usize)>> = Vec::new();
    for _ in 0..n_msgs {
        if !t.chance(2, 5) {
            let m = gen::gen_message(&mut t, ix, &cfg);
            kinds.push(vec![UnitKind::Normal; m.units.len()]);
            msgs.push(m);
            faults.push(None);
            continue;
        }
        // one faulty unit at a uniform position among 1-4 units
        let n_units = t.range(1, 4);
        let pos = t.below(n_units);
        let fault = FAULTS[t.below(FAULTS.len())];
        let mut units = Vec::new();
        let mut ks = Vec::new();
        let mut ctx: Vec<String> = Vec::new();
        let mut placed = None;
        for ui in 0..n_units {
            if ui == pos {
                if let Some((u, k)) = gen_faulty_unit(&mut t, model, ix, &ctx, &cfg, fault, &failing) {
                    if let UnitKind::Normal = k {
                        if let Some(c) = model.resolve(&ctx, &u.header).new_ctx {
                            ctx = c;
                        }
                    }
                    placed = Some(fault);
                    units.push(u);
                    ks.push(k);
                    continue;
                }
            }
            let mut c = cfg.clone();
            if ui > 0 && matches!(ks.last(), Some(UnitKind::Syntax)) {
                // the path after a syntactically broken unit is unspecified: continue absolutely
                c.w_unit = [0, 3, 2, 0];
                ctx = vec!["\u{0}unreachable".into()];
            }
            let u = gen::gen_unit(&mut t, ix, &ctx, &c);
            if ctx.first().map(|s| s.starts_with('\u{0}')).unwrap_or(false) {
                ctx = Vec::new();
            }
            if let Some(c2) = model.resolve(&ctx, &u.header).new_ctx {
                ctx = c2;
            }
            units.push(u);
            ks.push(UnitKind::Normal);
        }
        let mut m = Message::new(units);
        m.crlf = t.chance(1, 4);
        faults.push(placed.map(|f| (f, pos, n_units)));
        kinds.push(ks);
        msgs.push(m);
    }
    let stream = render_all(&msgs);
    let pred = gen::predict(model, &msgs, Some(&kinds), &env);
    let np = t.below(3);
    let pauses: Vec<u8> = (0..np).map(|_| t.below(3) as u8).collect();

    let out = (ex.run_rec)(&env, &pauses, &stream);
    gen::match_log(
        &pred,
        &out.log,
        &MatchCfg {
            responses_in_log: true,
            output: None,
            qcap: ex.qcap,
        },
    )
    .map_err(|e| format!("run('{}'): {} [log: {}]", esc(&stream), e, show_log(&out.log)))?;
    if out.rest != 0 {
        return Err(format!("run('{}') returned {} unprocessed bytes of complete messages", esc(&stream), out.rest));
    }

    let longest = msgs.iter().map(|m| m.rendered().len()).max().unwrap_or(1);
    let need = longest.max(response_bound(&pred));
    let fitting: Vec<usize> = ex.sizes.iter().copied().filter(|n| *n >= need).collect();
    if !fitting.is_empty() {
        let n = fitting[t.below(fitting.len().min(3))];
        let reads = gen_reads(&mut t, stream.len(), n);
        let po = (ex.process)(&env, n, &pauses, &stream, &reads);
        let (_, written) = crate::observation(&po.log, &[]);
        gen::match_log(
            &pred,
            &po.log,
            &MatchCfg {
                responses_in_log: false,
                output: Some(written),
                qcap: ex.qcap,
            },
        )
        .map_err(|e| {
            format!(
                "process::<{}>('{}') reads {:?}: {} [log: {}]",
                n,
                esc(&stream),
                show_reads(&reads),
                e,
                show_log(&po.log)
            )
        })?;
    }
    let mut prev_faulty = false;
    let mut nontrivial = false;
    for (i, f) in faults.iter().enumerate() {
        if let Some((fault, pos, n_units)) = f {
            st.class(&format!("fault {:?}", fault));
            if pos + 1 < *n_units {
                st.class("fault not in the last unit");
                if i + 1 < faults.len() {
                    nontrivial = true;
                }
            }
            if prev_faulty {
                st.class("two faulty messages in a row");
                nontrivial = true;
            }
            prev_faulty = true;
        }
        else {
            prev_faulty = false;
        }
    }
    if nontrivial {
        st.nontrivial(&stream);
    }
    st.sample(|| json!({ "stream": esc(&stream), "faults": faults.iter().map(|f| f.map(|(k, p, n)| format!("{:?} at unit {}/{}", k, p + 1, n))).collect::<Vec<_>>() }));
    Ok(())
}

// -------------------------------------------------------------------------------------------------
// C01
// -------------------------------------------------------------------------------------------------

use vcore::spec::{expand, parse_cmd, DNode, STD_DECLS};

fn all_decl_cmds(model: &Model) -> Vec<String> {
    let mut v: Vec<String> = model.spec.decls.iter().map(|d| d.cmd.clone()).collect();
    // the standard commands are probed whether or not they were requested
    v.extend(STD_DECLS.iter().map(|s| s.to_string()));
    v
}

fn vocabulary(model: &Model) -> Vec<String> {
    let mut v: Vec<String> = Vec::new();
    for cmd in all_decl_cmds(model) {
        for n in parse_cmd(&cmd).0 {
            for f in [n.long(), n.short()] {
                if !v.contains(&f) {
                    v.push(f);
                }
            }
        }
    }
    v
}

/// A syntactically valid program header: either one common-command mnemonic (`*` + mnemonic) or a
/// compound header of plain mnemonics (letter, then letters, digits, underscores).
pub fn valid_header(mnems: &[String]) -> bool {
    let plain = |m: &str| {
        let mut ch = m.chars();
        matches!(ch.next(), Some(c) if c.is_ascii_alphabetic()) && ch.all(|c| c.is_ascii_alphanumeric() || c == '_')
    };
    match mnems {
        [] => false,
        [one] => plain(one.strip_prefix('*').unwrap_or(one)),
        many => many.iter().all(|m| plain(m)),
    }
}

/// Systematic list of header candidates for one declaration set: every declared spelling, and near
/// misses built from every node of every declaration. Each is judged by the dictionary.
pub fn c01_candidates(model: &Model) -> Vec<(Header, &'static str)> {
    let mut out: Vec<(Header, &'static str)> = Vec::new();
    let mut push = |mnems: Vec<String>, query: bool, class: &'static str| {
        if mnems.is_empty() || mnems.iter().any(|m| m.is_empty()) {
            return;
        }
        // a candidate must be a syntactically valid header (mnemonic = letter, then letters/digits/_)
        if valid_header(&mnems) {
            out.push((
                Header {
                    absolute: false,
                    mnems,
                    query,
                },
                class,
            ));
        }
    };
    // (a) every declared spelling
    for ((path, query), _) in &model.dict {
        push(path.clone(), *query, "declared spelling");
    }
    let vocab = vocabulary(model);
    for cmd in all_decl_cmds(model) {
        let (nodes, query): (Vec<DNode>, bool) = parse_cmd(&cmd);
        if nodes.is_empty() {
            continue;
        }
        // standard commands in every spelling, requested or not
        if STD_DECLS.contains(&cmd.as_str()) {
            for p in expand(&nodes) {
                push(p, query, "standard command spelling");
            }
        }
        // two base spellings with all nodes present
        for base_short in [false, true] {
            let base: Vec<String> = nodes.iter().map(|n| if base_short { n.short() } else { n.long() }).collect();
            push(base.clone(), !query, "query mark toggled");
            let mut extra = base.clone();
            extra.push(vocab[(base.len() * 7 + cmd.len()) % vocab.len()].clone());
            push(extra, query, "extra trailing level");
            for (i, n) in nodes.iter().enumerate() {
                let (long, short) = (n.long(), n.short());
                for k in 1..long.len() {
                    let abbr = long[..k].to_string();
                    if abbr != short && abbr != long {
                        let mut m = base.clone();
                        m[i] = abbr;
                        push(m, query, "abbreviation that is neither short nor long form");
                    }
                }
                if short.len() > 1 {
                    let mut m = base.clone();
                    m[i] = short[..short.len() - 1].to_string();
                    push(m, query, "shorter than the short form");
                }
                let mut m = base.clone();
                m[i] = format!("{}X", long);
                push(m, query, "long form plus a letter");
                let mut m = base.clone();
                m[i] = format!("{}X", short);
                push(m, query, "short form plus a letter");
                for (k, v) in vocab.iter().enumerate() {
                    if (k + i) % 3 == 0 && *v != long && *v != short {
                        let mut m = base.clone();
                        m[i] = v.clone();
                        push(m, query, "another node's mnemonic at this level");
                    }
                }
                if !n.optional && nodes.len() > 1 {
                    let mut m = base.clone();
                    m.remove(i);
                    push(m, query, "non-optional level dropped");
                }
                if !long.starts_with('*') {
                    let mut m = base.clone();
                    m.insert(i, base[i].clone());
                    push(m, query, "level duplicated");
                }
                if i + 1 < nodes.len() {
                    let mut m = base.clone();
                    m.swap(i, i + 1);
                    push(m, query, "two levels swapped");
                }
            }
        }
    }
    out
}

/// Runs one header alone and compares with the dictionary's verdict.
pub fn c01_check_header(
    model: &Model, ex: &Exec, header: &Header, salt: u64, st: &mut Stats, class: &str,
) -> Result<(), String> {
    // deterministic choices for case and arguments
    let tape: Vec<u32> = (0..48).map(|k| (vcore::runner::hash_of(&(salt, k, &header.mnems)) >> 16) as u32).collect();
    let mut t = Tape::new(&tape);
    let mut h = header.clone();
    if salt % 3 != 0 {
        for m in h.mnems.iter_mut() {
            *m = gen::spell(&mut t, &m.to_ascii_uppercase(), true);
        }
    }
    if salt % 5 == 1 {
        h.absolute = !h.is_common();
    }
    let res = model.resolve(&[], &h);
    let args = match res.target {
        Some(Target::User(i)) => gen::gen_args(&mut t, &model.spec.decls[i].params, &Default::default()),
        _ => vec![],
    };
    let msg = Message::new(vec![Unit::new(h.clone(), args)]);
    let stream = msg.rendered();
    let env = Env::new(model, ex.qcap);
    let pred = gen::predict(model, std::slice::from_ref(&msg), None, &env);
    let out = (ex.run_rec)(&env, &[], &stream);
    gen::match_log(
        &pred,
        &out.log,
        &MatchCfg {
            responses_in_log: true,
            output: None,
            qcap: ex.qcap,
        },
    )
    .map_err(|e| {
        format!(
            "header '{}' ({}; the declarations {} it): {} [log: {}]",
            esc(&stream),
            class,
            if res.target.is_some() { "define" } else { "do not define" },
            e,
            show_log(&out.log)
        )
    })?;
    let invoked = out.log.iter().filter(|e| matches!(e, Ev::Handler { .. })).count();
    if invoked > 1 {
        return Err(format!("header '{}' invoked {} handlers", esc(&stream), invoked));
    }
    match res.target {
        Some(_) => st.class(&format!("{}: selects a handler", class)),
        None => st.class(&format!("{}: undefined", class)),
    }
    Ok(())
}

/// Random spellings and multi-mutations of one declaration (proptest tape).
pub fn c01_random_prop(model: &Model, ex: &Exec, tape: &[u32], st: &mut Stats) -> Result<(), String> {
    let mut t = Tape::new(tape);
    let cmds = all_decl_cmds(model);
    let cmd = &cmds[t.below(cmds.len())];
    let (nodes, mut query) = parse_cmd(cmd);
    let vocab = vocabulary(model);
    let mut mnems: Vec<String> = Vec::new();
    for n in &nodes {
        match t.weighted(&[3, 3, if n.optional { 2 } else { 0 }]) {
            0 => mnems.push(n.long()),
            1 => mnems.push(n.short()),
            _ => {}
        }
    }
    let muts = t.weighted(&[3, 3, 1]);
    let mut class = "random spelling";
    for _ in 0..muts {
        class = "random multi-mutation";
        if mnems.is_empty() {
            break;
        }
        let i = t.below(mnems.len());
        match t.below(8) {
            0 => {
                let k = t.range(1, mnems[i].len());
                let cut: String = mnems[i].chars().take(k).collect();
                mnems[i] = cut;
            }
            1 => mnems[i].push((b'A' + t.below(26) as u8) as char),
            2 => mnems[i] = vocab[t.below(vocab.len())].clone(),
            3 => {
                mnems.remove(i);
            }
            4 => {
                let m = mnems[i].clone();
                mnems.insert(i, m);
            }
            5 => {
                let j = t.below(mnems.len());
                mnems.swap(i, j);
            }
            6 => mnems.push(vocab[t.below(vocab.len())].clone()),
            _ => query = !query,
        }
    }
    if !valid_header(&mnems) {
        return Ok(());
    }
    let h = Header {
        absolute: false,
        mnems,
        query,
    };
    let salt = t.u64();
    c01_check_header(model, ex, &h, salt, st, class)?;
    if class == "random multi-mutation" || h.mnems.iter().any(|m| !nodes.iter().any(|n| n.long() == *m)) {
        st.nontrivial(&(&model.spec.name, &h, salt % 15));
    }
    Ok(())
}

// -------------------------------------------------------------------------------------------------
// C03
// -------------------------------------------------------------------------------------------------

use vcore::ast::ArgVal;
use vcore::gen::Item;
use vcore::lits::{expect, satisfies, Expect};
use vcore::lits_c03::gen_c03_lit_nl;
use vcore::spec::ALL_TYS;

pub fn c03_nontrivial_class(class: &str) -> bool {
    class.contains("bound")
        || class.contains("modulo")
        || class.contains("power of two")
        || class.contains("midpoint")
        || class.contains("threshold")
        || class.contains("subnormal")
        || class.contains("mismatched")
        || class.contains("non-decimal")
        || class.contains("real-number")
        || class.contains("other")
        || class.contains("spelled zero")
        || class.contains("newline")
}

/// C03 through the real parser and dispatcher: one command of `sigs`, one generated literal per
/// parameter (or a wrong number of parameters), judged by the reference literal semantics.
pub fn c03_sig_prop(model: &Model, ex: &Exec, sigs: &[usize], tape: &[u32], st: &mut Stats) -> Result<(), String> {
    let mut t = Tape::new(tape);
    let id = sigs[t.below(sigs.len())];
    let d = &model.spec.decls[id];
    let env = Env::new(model, ex.qcap);
    // number of parameters supplied: usually the declared one
    let declared = d.params.len();
    let supplied = if t.chance(1, 8) { t.below(13) } else { declared };
    let mut lits: Vec<Lit> = Vec::new();
    let mut classes: Vec<&'static str> = Vec::new();
    // A newline inside a string or block is data. It is generated only when the parser itself cannot
    // find a fault in the message (at most MAX_ARGS parameters; every generated literal is well-formed
    // program data): after a parser-level fault the library discards up to the next newline, and a
    // newline inside a payload would then legitimately start a "new message".
    let newlines = supplied <= 10;
    for i in 0..supplied {
        let ty = if i < declared { d.params[i] } else { ALL_TYS[t.below(ALL_TYS.len())] };
        let (l, c) = gen_c03_lit_nl(&mut t, ty, newlines);
        lits.push(l);
        classes.push(c);
    }
    let (nodes, query) = parse_cmd(&d.cmd);
    let mut msg = nodes.iter().map(|n| n.long()).collect::<Vec<_>>().join(":").into_bytes();
    if query {
        msg.push(b'?');
    }
    for (i, l) in lits.iter().enumerate() {
        msg.push(if i == 0 { b' ' } else { b',' });
        l.render(&mut msg);
    }
    msg.push(b'\n');
    let out = (ex.run_rec)(&env, &[], &msg);
    let its = gen::items(&out.log);
    let ctx = |e: String| format!("{} [message '{}' declared {:?} log: {}]", e, esc(&msg), d.params, show_log(&out.log));
    let handlers: Vec<(&usize, &Vec<ArgVal>)> = its
        .iter()
        .filter_map(|i| match i {
            Item::H { id, args } => Some((id, args)),
            _ => None,
        })
        .collect();
    let errors: Vec<i16> = its
        .iter()
        .filter_map(|i| match i {
            Item::E { num, .. } => Some(*num),
            _ => None,
        })
        .collect();
    if supplied != declared {
        st.class("parameter count differs from the declaration");
        st.nontrivial(&msg);
        if !handlers.is_empty() {
            return Err(ctx(format!("handler invoked with {} parameters supplied for {} declared", supplied, declared)));
        }
        if errors.len() != 1 {
            return Err(ctx(format!("{} errors reported for a wrong parameter count (exactly one expected)", errors.len())));
        }
        return Ok(());
    }
    let expects: Vec<Expect> = lits.iter().zip(&d.params).map(|(l, ty)| expect(l, *ty)).collect();
    for (c, e) in classes.iter().zip(&expects) {
        st.class(&format!("{} -> {}", c, e.class()));
    }
    let any_reject = expects.iter().any(|e| matches!(e, Expect::Reject(_)));
    let any_either = expects.iter().any(|e| matches!(e, Expect::Either(..)));
    match handlers.as_slice() {
        [(hid, args)] => {
            if **hid != id {
                return Err(ctx(format!("handler {} invoked instead of {}", hid, id)));
            }
            if any_reject {
                return Err(ctx("handler invoked although a literal does not fit its parameter".into()));
            }
            if !errors.is_empty() {
                return Err(ctx("handler invoked and an error reported".into()));
            }
            if args.len() != declared {
                return Err(ctx(format!("handler received {} arguments", args.len())));
            }
            for (i, (e, got)) in expects.iter().zip(args.iter()).enumerate() {
                let want = match e {
                    Expect::Value(w) | Expect::Either(w, _) => w,
                    Expect::Reject(_) => unreachable!(),
                };
                if !satisfies(want, got) {
                    return Err(ctx(format!(
                        "parameter {} written as '{}' was delivered as {} (wanted {:?})",
                        i + 1,
                        esc(&lits[i].rendered()),
                        got.show(),
                        want
                    )));
                }
            }
        }
        [] => {
            if !any_reject && !any_either {
                return Err(ctx("handler not invoked although every literal fits its parameter".into()));
            }
            if errors.len() != 1 {
                return Err(ctx(format!("{} errors reported for a rejected parameter list (exactly one expected)", errors.len())));
            }
            let mut allowed: Vec<i16> = Vec::new();
            for e in &expects {
                match e {
                    Expect::Reject(n) | Expect::Either(_, n) => allowed.extend_from_slice(n),
                    _ => {}
                }
            }
            if !allowed.contains(&errors[0]) {
                return Err(ctx(format!("rejected with error {} but the offending literals call for one of {:?}", errors[0], allowed)));
            }
        }
        _ => return Err(ctx(format!("handler invoked {} times", handlers.len()))),
    }
    if classes.iter().any(|c| c03_nontrivial_class(c)) {
        st.nontrivial(&msg);
    }
    st.sample(|| json!({ "message": esc(&msg[..msg.len().min(160)]), "classes": classes }));
    Ok(())
}


// -------------------------------------------------------------------------------------------------
// C12 (unit-level relations, usable with any tree)
// -------------------------------------------------------------------------------------------------

use microscpi::parser::{parse, CommandCall, ParseError};
use microscpi::Node;

pub fn c12_show(call: &Option<CommandCall<'_>>) -> String {
    match call {
        None => "empty unit".to_string(),
        Some(c) => format!(
            "call(node {:p}, header {:?}, query {}, args {:?}, terminated {})",
            c.node,
            c.header.map(|h| h as *const Node),
            c.query,
            c.args,
            c.terminated
        ),
    }
}

pub fn c12_show_res(r: &Result<(&[u8], Option<CommandCall<'_>>), ParseError>) -> String {
    match r {
        Ok((rem, call)) => format!("Ok({} bytes left, {})", rem.len(), c12_show(call)),
        Err(e) => format!("Err({:?})", e),
    }
}

pub fn c12_node_for_ctx(root: &'static Node, ctx: &[String]) -> Option<&'static Node> {
    let mut n = root;
    for c in ctx {
        n = n.child(c)?;
    }
    Some(n)
}

/// Generated well-formed units: prefixes, tails.
pub fn c12_unit_prop(
    model: &Model, ix: &Index, root: &'static Node, tape: &[u32], st: &mut Stats,
) -> Result<(), String> {
    let mut t = Tape::new(tape);
    let mut cfg = GenCfg::default();
    cfg.lit.newlines = true;
    cfg.w_unit = [6, 3, 2, 1];
    // walk a few units to get a non-root context
    let mut ctx: Vec<String> = Vec::new();
    let hops = t.below(3);
    for _ in 0..hops {
        let u = gen::gen_unit(&mut t, ix, &ctx, &cfg);
        if let Some(c) = model.resolve(&ctx, &u.header).new_ctx {
            if model.node_exists(&c) {
                ctx = c;
            }
        }
    }
    let start = c12_node_for_ctx(root, &ctx).ok_or("harness: context node missing")?;
    let unit = gen::gen_unit(&mut t, ix, &ctx, &cfg);
    let res = model.resolve(&ctx, &unit.header);
    let mut u = Vec::new();
    unit.render(&mut u);
    u.push(if t.chance(1, 2) { b'\n' } else { b';' });
    let tail_len = t.below(10);
    let tail: Vec<u8> = (0..tail_len)
        .map(|_| match t.weighted(&[3, 2, 1]) {
            0 => vcore::streams::ALPHABET[t.below(vcore::streams::ALPHABET.len())],
            1 => b"'\"\n#;"[t.below(5)],
            _ => t.byte(),
        })
        .collect();
    let mut full = u.clone();
    full.extend_from_slice(&tail);
    let r = parse(root, start, &full);
    if let Err(ParseError::Incomplete) = r {
        return Err(format!("parse('{}') = Incomplete although it starts with the complete unit '{}'", esc(&full), esc(&u)));
    }
    let r_alone = parse(root, start, &u);
    match (&r_alone, res.node_exists) {
        (Ok((rem, call)), _) => {
            if !rem.is_empty() {
                return Err(format!("parse('{}') left {} bytes of a single well-formed unit", esc(&u), rem.len()));
            }
            match &r {
                Ok((rem2, call2)) if *rem2 == &tail[..] && call2 == call => {}
                other => {
                    return Err(format!(
                        "parse('{}') = {} but parse('{}') = {}",
                        esc(&u),
                        c12_show(call),
                        esc(&full),
                        c12_show_res(other)
                    ))
                }
            }
            st.class("unit accepted");
            let has_payload_newline = unit.args.iter().any(|a| a.payload().map(|p| p.contains(&b'\n')).unwrap_or(false));
            if has_payload_newline {
                st.class("unit with payload newline");
            }
            if has_payload_newline || !tail.is_empty() {
                st.nontrivial(&full);
            }
        }
        (Err(ParseError::Incomplete), _) => {
            return Err(format!("parse('{}') = Incomplete for a complete well-formed unit", esc(&u)));
        }
        // whether a well-formed unit is accepted is the business of C01/C03/C08, not of C12
        (Err(_), true) => st.class("unit rejected although its header is defined"),
        (Err(_), false) => st.class("unit with undefined header"),
    }
    // proper prefixes: never accepted; if rejected while newline-terminated, the full unit (a
    // continuation) must not be accepted
    let accepted = r_alone.is_ok();
    for k in 0..u.len() {
        let p = &u[..k];
        st.evals_add(1);
        match parse(root, start, p) {
            Ok((rem, call)) => {
                // a prefix that is itself a complete unit can only arise from an empty unit
                if call.is_some() || rem.len() != 0 {
                    return Err(format!(
                        "proper prefix '{}' of the single unit '{}' is accepted as {}",
                        esc(p),
                        esc(&u),
                        c12_show(&call)
                    ));
                }
                if accepted && !p.is_empty() {
                    return Err(format!(
                        "prefix '{}' is accepted as an empty unit but '{}' is accepted as one unit",
                        esc(p),
                        esc(&u)
                    ));
                }
            }
            Err(ParseError::Incomplete) => {}
            Err(e) => {
                if accepted && p.last() == Some(&b'\n') {
                    return Err(format!(
                        "parse('{}') is rejected with {:?} (not Incomplete), yet its continuation '{}' is accepted",
                        esc(p),
                        e,
                        esc(&u)
                    ));
                }
            }
        }
    }
    st.sample(|| json!({ "context": ctx, "unit": esc(&u), "tail": esc(&tail) }));
    Ok(())
}



// -------------------------------------------------------------------------------------------------
// C11 (lexical variants; generic over the interface so that generated declaration sets are covered)
// -------------------------------------------------------------------------------------------------

use vcore::ast::Ws;
use vcore::runner::hash_of;

fn c11_observe(ex: &Exec, env: &Env, stream: &[u8]) -> (Vec<Item>, String) {
    let out = (ex.run_rec)(env, &[], stream);
    (gen::items(&out.log), show_log(&out.log))
}

fn c11_observe_process(ex: &Exec, env: &Env, stream: &[u8]) -> (Vec<Ev>, Vec<u8>) {
    // a read schedule derived from the bytes themselves (single bytes, pairs, or everything at once):
    // variations that only show at a read boundary are then visible too
    let reads: Vec<usize> = match hash_of(stream) % 4 {
        0 => vec![],
        1 => vec![1; stream.len()],
        2 => vec![2; stream.len()],
        _ => (0..stream.len()).map(|i| 1 + (hash_of(&(stream, i)) % 5) as usize).collect(),
    };
    let po = (ex.process)(env, 1024, &[], stream, &reads);
    crate::observation(&po.log, &[])
}

/// Base message: canonical spelling (upper case as chosen by the generator, single blanks, LF),
/// valid units plus execution-type faults.
pub fn c11_gen_base(t: &mut Tape, model: &Model, ix: &Index, env: &mut Env) -> Message {
    let mut cfg = GenCfg::default();
    cfg.lexical = false;
    cfg.max_units = 4;
    cfg.lit.max_payload = 4;
    cfg.p_empty_message = 0;
    let failing: Vec<usize> = if t.chance(1, 3) {
        let id = t.below(model.spec.decls.len());
        env.fail[id] = Some(FailSpec::Custom(-(t.below(300) as i16) - 1, t.below(8)));
        vec![id]
    }
    else {
        vec![]
    };
    let n = t.range(1, 4);
    let mut units: Vec<Unit> = Vec::new();
    let mut ctx: Vec<String> = Vec::new();
    for _ in 0..n {
        let u = if t.chance(1, 5) {
            let fault = [Fault::Arity, Fault::Kind, Fault::Range, Fault::NotBool, Fault::UndefSoft, Fault::UndefHard][t.below(6)];
            match gen_faulty_unit(t, model, ix, &ctx, &cfg, fault, &failing) {
                Some((u, _)) => u,
                None => gen::gen_unit(t, ix, &ctx, &cfg),
            }
        }
        else {
            gen::gen_unit(t, ix, &ctx, &cfg)
        };
        if let Some(c) = model.resolve(&ctx, &u.header).new_ctx {
            ctx = c;
        }
        units.push(u);
    }
    let mut m = Message::new(units);
    m.trailing_semicolon = t.chance(1, 8);
    m
}

/// Other spellings (short/long form) of mnemonic `i` of `u` that select the same node.
fn c11_alternatives(model: &Model, ctx: &[String], u: &Unit, i: usize) -> Vec<String> {
    let base = model.resolve(ctx, &u.header);
    let Some(target) = base.target else { return vec![] };
    let mut full: Vec<String> = if u.header.absolute || u.header.is_common() { vec![] } else { ctx.to_vec() };
    let offset = full.len();
    full.extend(u.header.mnems.iter().map(|m| m.to_ascii_uppercase()));
    let mut out = Vec::new();
    for ((path, query), tg) in &model.dict {
        if *tg == target && *query == u.header.query && path.len() == full.len() {
            let same_elsewhere = (0..path.len()).all(|k| k == offset + i || path[k] == full[k]);
            if same_elsewhere && path[offset + i] != full[offset + i] {
                out.push(path[offset + i].clone());
            }
        }
    }
    out
}

#[derive(Default)]
pub struct C11Kinds {
    pub case: bool,
    pub form: bool,
    pub ws: bool,
    pub crlf: bool,
    pub odd_ws: bool,
}

pub fn c11_gen_variant(t: &mut Tape, model: &Model, base: &Message, kinds: &mut C11Kinds) -> Message {
    let mut v = base.clone();
    let mut ctx: Vec<String> = Vec::new();
    let mut vctx: Vec<String> = Vec::new();
    for (ui, u) in base.units.iter().enumerate() {
        let target = model.resolve(&ctx, &u.header).target;
        let mut nu = u.clone();
        if matches!(target, Some(Target::User(_)) | Some(Target::StdVersion) | Some(Target::ErrNext) | Some(Target::ErrCount)) {
            for i in 0..u.header.mnems.len() {
                if t.chance(1, 2) {
                    let alts = c11_alternatives(model, &ctx, u, i);
                    if !alts.is_empty() {
                        let mut cand = nu.clone();
                        cand.header.mnems[i] = alts[t.below(alts.len())].clone();
                        if model.resolve(&vctx, &cand.header).target == target {
                            nu = cand;
                            kinds.form = true;
                        }
                    }
                }
            }
        }
        for m in nu.header.mnems.iter_mut() {
            let spelled = gen::spell(t, &m.to_ascii_uppercase(), true);
            if spelled != *m {
                kinds.case = true;
            }
            *m = spelled;
        }
        let ws = gen::gen_ws_slots(t, true);
        if ws != Ws::default() {
            kinds.ws = true;
            let all: Vec<u8> = [&ws.before[..], &ws.gap, &ws.before_comma, &ws.after_comma, &ws.end].concat();
            if all.iter().any(|b| !matches!(b, b' ' | b'\t' | b'\r')) {
                kinds.odd_ws = true;
            }
        }
        nu.ws = ws;
        if let Some(c) = model.resolve(&ctx, &u.header).new_ctx {
            ctx = c;
        }
        if let Some(c) = model.resolve(&vctx, &nu.header).new_ctx {
            vctx = c;
        }
        v.units[ui] = nu;
    }
    if v.trailing_semicolon || v.units.is_empty() {
        v.tail_ws = gen::gen_ws(t, true, 0);
    }
    v.crlf = t.chance(1, 2);
    kinds.crlf = v.crlf;
    v
}

pub fn c11_compare(ex: &Exec, env: &Env, base: &Message, variant: &Message) -> Result<(), String> {
    let b = base.rendered();
    let v = variant.rendered();
    let (ob, lb) = c11_observe(ex, env, &b);
    let (ov, lv) = c11_observe(ex, env, &v);
    if ob != ov {
        return Err(format!(
            "base '{}' and its lexical variant '{}' behave differently: [{}] vs [{}]",
            esc(&b),
            esc(&v),
            lb,
            lv
        ));
    }
    if b.len() <= 1024 && v.len() <= 1024 {
        let pb = c11_observe_process(ex, env, &b);
        let pv = c11_observe_process(ex, env, &v);
        if pb != pv {
            return Err(format!(
                "through process, base '{}' and its lexical variant '{}' behave differently",
                esc(&b),
                esc(&v)
            ));
        }
    }
    Ok(())
}

pub fn c11_random_prop(model: &Model, ix: &Index, ex: &Exec, tape: &[u32], st: &mut Stats) -> Result<(), String> {
    let mut t = Tape::new(tape);
    let mut env = Env::new(model, ex.qcap);
    let base = c11_gen_base(&mut t, model, ix, &mut env);
    for _ in 0..3 {
        let mut kinds = C11Kinds::default();
        let variant = c11_gen_variant(&mut t, model, &base, &mut kinds);
        if !c11_same_resolution(model, &base, &variant) {
            // A mnemonic that is the short form of two sibling nodes at once (XCd and XCf under one
            // parent: the macro accepts such sets as long as no two handlers collide) stands for both
            // nodes; writing one of them out changes the header path that later relative units see.
            // That is not a meaning-preserving variation, so the reference model discards it.
            st.class("variant discarded: exchanged form is ambiguous between sibling nodes");
            continue;
        }
        c11_compare(ex, &env, &base, &variant)?;
        st.evals_add(1);
        let n = [kinds.case, kinds.form, kinds.ws, kinds.crlf].iter().filter(|b| **b).count();
        if kinds.form {
            st.class("short/long form exchanged");
        }
        if kinds.odd_ws {
            st.class("white space other than blank/tab/CR");
        }
        if kinds.crlf {
            st.class("CR LF terminator");
        }
        if n >= 2 || kinds.odd_ws {
            st.nontrivial(&variant.rendered());
        }
        st.sample(|| json!({ "base": esc(&base.rendered()), "variant": esc(&variant.rendered()) }));
    }
    Ok(())
}


/// Do all units of `variant` select the same targets as the units of `base` according to the
/// reference dictionary (walking the header path of each message separately)?
fn c11_same_resolution(model: &Model, base: &Message, variant: &Message) -> bool {
    let mut ctx: Vec<String> = Vec::new();
    let mut vctx: Vec<String> = Vec::new();
    for (u, v) in base.units.iter().zip(&variant.units) {
        let rb = model.resolve(&ctx, &u.header);
        let rv = model.resolve(&vctx, &v.header);
        // node_exists: an undefined header is found by the parser (rest of the message discarded) or at
        // execution (rest executed); both are allowed, but base and variant must be in the same case
        if rb.target != rv.target || rb.node_exists != rv.node_exists {
            return false;
        }
        if let Some(c) = rb.new_ctx {
            ctx = c;
        }
        if let Some(c) = rv.new_ctx {
            vctx = c;
        }
    }
    true
}

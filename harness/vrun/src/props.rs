//! Property functions that are independent of the concrete interface type: the executors are
//! injected as closures so that the same code serves the fixed fixtures and generated interfaces.

use serde_json::json;
use vcore::ast::{render_all, show_log, Ev, Message};
use vcore::gen::{self, Env, GenCfg, Index, MatchCfg};
use vcore::runner::{esc, Stats};
use vcore::spec::Model;
use vcore::tape::Tape;

use crate::{ProcOut, RunOut};

pub struct Exec<'a> {
    /// run(whole buffer) with the recording writer
    pub run_rec: &'a (dyn Fn(&Env, &[u8], &[u8]) -> RunOut + Sync),
    /// process(stream) with buffer size `n` (the closure maps it to an instantiated size)
    pub process: &'a (dyn Fn(&Env, usize, &[u8], &[u8], &[usize]) -> ProcOut + Sync),
    /// instantiated buffer sizes
    pub sizes: &'a [usize],
    pub qcap: usize,
}

/// Ordering clause of C02: a handler finishes before anything else happens.
pub fn check_handler_ordering(log: &[Ev]) -> Result<(), String> {
    let mut open: Option<usize> = None;
    for e in log {
        match e {
            Ev::Handler { id, .. } => {
                if let Some(o) = open {
                    return Err(format!("handler {} started before handler {} finished", id, o));
                }
                open = Some(*id);
            }
            Ev::HandlerDone { id } => {
                if open != Some(*id) {
                    return Err(format!("handler {} finished out of order", id));
                }
                open = None;
            }
            Ev::Error { .. } => open = None, // a failing handler returns before `done`
            Ev::Write(_) | Ev::Flush => {
                if let Some(o) = open {
                    return Err(format!("response bytes written while handler {} was still running", o));
                }
            }
            _ => {}
        }
    }
    Ok(())
}

pub fn gen_reads(t: &mut Tape, len: usize, n: usize) -> Vec<usize> {
    let style = t.weighted(&[2, 2, 3, 1]);
    let mut reads = Vec::new();
    let mut total = 0;
    while total < len && reads.len() < 4 * len + 8 {
        let r = match style {
            0 => 1,
            1 => usize::MAX,
            2 => match t.weighted(&[3, 3, 2, 2, 1, 1]) {
                0 => 1,
                1 => t.range(1, 4),
                2 => t.range(1, n.max(1)),
                3 => usize::MAX,
                4 => 0,
                _ => t.range(1, 64),
            },
            _ => t.range(0, 3),
        };
        if r != usize::MAX {
            total += r;
        }
        else {
            total += n.max(1);
        }
        reads.push(r);
    }
    reads
}

/// Upper bound of the response bytes one message of this prediction can produce.
pub fn response_bound(pred: &[gen::PEv]) -> usize {
    let mut worst = 0;
    let mut cur = 0;
    for p in pred {
        match p {
            gen::PEv::Response(b) => cur += b.len(),
            gen::PEv::ErrNext | gen::PEv::ErrCount => cur += 64,
            gen::PEv::EndOfMessage => {
                worst = worst.max(cur);
                cur = 0;
            }
            _ => {}
        }
    }
    worst.max(cur)
}

pub fn show_reads(reads: &[usize]) -> Vec<i64> {
    reads.iter().map(|r| if *r == usize::MAX { -1 } else { *r as i64 }).collect()
}

/// Does the unit at (mi, ui) resolve differently from its context than from the root?
fn context_sensitive(model: &Model, msgs: &[Message]) -> (bool, bool, bool) {
    let mut sensitive = false;
    let mut after_semicolon_end = false;
    let mut single_absolute = false;
    let mut prev_trailing = false;
    for m in msgs {
        if prev_trailing && !m.units.is_empty() {
            after_semicolon_end = true;
        }
        let mut ctx: Vec<String> = Vec::new();
        for (ui, u) in m.units.iter().enumerate() {
            let r = model.resolve(&ctx, &u.header);
            if ui > 0 && !u.header.absolute && !u.header.is_common() {
                let from_root = model.resolve(&[], &u.header);
                if from_root.target != r.target {
                    sensitive = true;
                }
            }
            if u.header.absolute && u.header.mnems.len() == 1 && ui + 1 < m.units.len() {
                single_absolute = true;
            }
            if let Some(c) = r.new_ctx {
                ctx = c;
            }
        }
        prev_trailing = m.trailing_semicolon || m.units.is_empty();
    }
    (sensitive, after_semicolon_end, single_absolute)
}

/// C02: path context follows the compound-message rules; messages are independent; units execute
/// one at a time in order.
pub fn c02_prop(model: &Model, ix: &Index, ex: &Exec, tape: &[u32], st: &mut Stats) -> Result<(), String> {
    let mut t = Tape::new(tape);
    let mut cfg = GenCfg::default();
    cfg.max_units = 5;
    cfg.w_unit = [8, 4, 3, 3];
    cfg.p_trailing_semicolon = 3;
    cfg.p_empty_message = 2;
    cfg.lit.max_payload = 4;
    let env = Env::new(model, ex.qcap);
    let n_msgs = t.range(1, 4);
    let msgs: Vec<Message> = (0..n_msgs).map(|_| gen::gen_message(&mut t, ix, &cfg)).collect();
    let stream = render_all(&msgs);
    let pred = gen::predict(model, &msgs, None, &env);
    let np = t.below(4);
    let pauses: Vec<u8> = (0..np).map(|_| t.below(3) as u8).collect();

    let out = (ex.run_rec)(&env, &pauses, &stream);
    gen::match_log(
        &pred,
        &out.log,
        &MatchCfg {
            responses_in_log: true,
            output: None,
            qcap: ex.qcap,
        },
    )
    .map_err(|e| format!("run('{}'): {} [log: {}]", esc(&stream), e, show_log(&out.log)))?;
    check_handler_ordering(&out.log).map_err(|e| format!("run('{}'): {} [log: {}]", esc(&stream), e, show_log(&out.log)))?;

    let longest = msgs.iter().map(|m| m.rendered().len()).max().unwrap_or(1);
    // process answers into a buffer of N bytes per message: keep N above any possible response
    let need = longest.max(response_bound(&pred));
    if let Some(&n) = ex.sizes.iter().find(|n| **n >= need) {
        let reads = gen_reads(&mut t, stream.len(), n);
        let po = (ex.process)(&env, n, &pauses, &stream, &reads);
        let (_, written) = crate::observation(&po.log, &[]);
        gen::match_log(
            &pred,
            &po.log,
            &MatchCfg {
                responses_in_log: false,
                output: Some(written),
                qcap: ex.qcap,
            },
        )
        .map_err(|e| {
            format!(
                "process::<{}>('{}') reads {:?}: {} [log: {}]",
                n,
                esc(&stream),
                show_reads(&reads),
                e,
                show_log(&po.log)
            )
        })?;
    }
    let (sensitive, after_end, single_abs) = context_sensitive(model, &msgs);
    if sensitive {
        st.class("relative unit resolving differently from context and root");
    }
    if after_end {
        st.class("message after one ending in ';' or empty");
    }
    if single_abs {
        st.class("absolute single-mnemonic header followed by a unit");
    }
    if pred.iter().any(|p| matches!(p, gen::PEv::Error(_))) {
        st.class("with an undefined header");
    }
    if sensitive || after_end {
        st.nontrivial(&stream);
    }
    st.sample(|| json!({ "stream": esc(&stream) }));
    Ok(())
}

//! Execution support around the real library: shared event log, recording writer / adapter / error
//! queue, handler-side state (scripted return values, failures and suspensions), a tiny executor.

use std::cell::RefCell;
use std::future::Future;
use std::pin::Pin;
use std::rc::Rc;
use std::task::{Context, Poll, RawWaker, RawWakerVTable, Waker};

pub use vcore::ast::{ArgVal, Ev};
pub use vcore::rval::{RVal, ERR_TEXTS};

use microscpi::{Adapter, Error, ErrorQueue, StaticErrorQueue};

pub mod props;

pub type Log = Rc<RefCell<Vec<Ev>>>;

/// Implemented by every generated interface.
pub trait Fixture: microscpi::Interface {
    fn new_fixture() -> Self;
    fn st(&mut self) -> &mut State;
    fn spec_json() -> &'static str;
}

pub fn spec_of(json: &str) -> vcore::spec::Spec {
    vcore::codegen::spec_from_json(&serde_json::from_str(json).expect("spec json"))
}

// -------------------------------------------------------------------------------------------------
// Executor
// -------------------------------------------------------------------------------------------------

fn noop_waker() -> Waker {
    fn clone(_: *const ()) -> RawWaker {
        RawWaker::new(std::ptr::null(), &VTABLE)
    }
    fn noop(_: *const ()) {}
    static VTABLE: RawWakerVTable = RawWakerVTable::new(clone, noop, noop, noop);
    unsafe { Waker::from_raw(RawWaker::new(std::ptr::null(), &VTABLE)) }
}

/// Polls `fut` to completion with a no-op waker. Returns the number of `Pending` results seen.
pub fn block_on<F: Future>(fut: F) -> (F::Output, u64) {
    let mut fut = std::pin::pin!(fut);
    let waker = noop_waker();
    let mut cx = Context::from_waker(&waker);
    let mut pendings = 0u64;
    loop {
        match fut.as_mut().poll(&mut cx) {
            Poll::Ready(v) => return (v, pendings),
            Poll::Pending => pendings += 1,
        }
    }
}

/// Future that returns `Pending` `k` times before completing.
pub struct Yield(pub u8);

impl Future for Yield {
    type Output = ();
    fn poll(mut self: Pin<&mut Self>, _cx: &mut Context<'_>) -> Poll<()> {
        if self.0 == 0 {
            Poll::Ready(())
        }
        else {
            self.0 -= 1;
            Poll::Pending
        }
    }
}

/// Per-case suspension script shared by handlers, writer and adapter.
#[derive(Clone, Default)]
pub struct Pauses {
    inner: Rc<RefCell<(Vec<u8>, usize)>>,
}

impl Pauses {
    pub fn new(script: Vec<u8>) -> Pauses {
        Pauses {
            inner: Rc::new(RefCell::new((script, 0))),
        }
    }
    pub fn set(&self, script: Vec<u8>) {
        *self.inner.borrow_mut() = (script, 0);
    }
    pub fn next(&self) -> Yield {
        let mut g = self.inner.borrow_mut();
        if g.0.is_empty() {
            return Yield(0);
        }
        let k = g.0[g.1 % g.0.len()];
        g.1 += 1;
        Yield(k)
    }
}

// -------------------------------------------------------------------------------------------------
// Handler-side state
// -------------------------------------------------------------------------------------------------

pub struct State {
    pub log: Log,
    /// return value per declaration id
    pub rets: Vec<RVal>,
    /// scripted failure per declaration id
    pub fail: Vec<Option<Error>>,
    pub pauses: Pauses,
}

impl State {
    pub fn new() -> State {
        State {
            log: Rc::new(RefCell::new(Vec::new())),
            rets: Vec::new(),
            fail: Vec::new(),
            pauses: Pauses::default(),
        }
    }
    pub fn with_spec(&mut self, spec: &vcore::spec::Spec) {
        self.rets = spec.decls.iter().map(|d| vcore::rval::default_rval(&d.ret)).collect();
        self.fail = vec![None; spec.decls.len()];
    }
    pub fn enter(&mut self, id: usize, args: Vec<ArgVal>) -> Result<(), Error> {
        self.log.borrow_mut().push(Ev::Handler { id, args });
        match self.fail.get(id) {
            Some(Some(e)) => Err(*e),
            _ => Ok(()),
        }
    }
    pub fn done(&mut self, id: usize) {
        self.log.borrow_mut().push(Ev::HandlerDone { id });
    }
    pub fn pause(&mut self) -> Yield {
        self.pauses.next()
    }
    pub fn on_error(&mut self, e: Error) {
        let text: &str = e.into();
        self.log.borrow_mut().push(Ev::Error {
            num: e.number(),
            text: text.to_string(),
        });
    }
    pub fn take_log(&self) -> Vec<Ev> {
        std::mem::take(&mut *self.log.borrow_mut())
    }
}

impl Default for State {
    fn default() -> Self {
        State::new()
    }
}

pub trait ToArg {
    fn to_arg(self) -> ArgVal;
}
macro_rules! int_to_arg {
    ($($t:ty),*) => { $(impl ToArg for $t { fn to_arg(self) -> ArgVal { ArgVal::Int(self as i128) } })* };
}
int_to_arg!(u8, i8, u16, i16, u32, i32, u64, i64, usize, isize);
impl ToArg for f32 {
    fn to_arg(self) -> ArgVal {
        ArgVal::F32(self.to_bits())
    }
}
impl ToArg for f64 {
    fn to_arg(self) -> ArgVal {
        ArgVal::F64(self.to_bits())
    }
}
impl ToArg for bool {
    fn to_arg(self) -> ArgVal {
        ArgVal::Bool(self)
    }
}
impl ToArg for &str {
    fn to_arg(self) -> ArgVal {
        ArgVal::Str(self.as_bytes().to_vec())
    }
}
impl ToArg for &[u8] {
    fn to_arg(self) -> ArgVal {
        ArgVal::Bytes(self.to_vec())
    }
}
pub fn av<T: ToArg>(v: T) -> ArgVal {
    v.to_arg()
}

pub fn r_int(v: &RVal) -> i128 {
    match v {
        RVal::Int(i) => *i,
        other => panic!("harness: expected int return value, got {:?}", other),
    }
}
pub fn r_f32(v: &RVal) -> u32 {
    match v {
        RVal::F32(b) => *b,
        other => panic!("harness: expected f32 return value, got {:?}", other),
    }
}
pub fn r_f64(v: &RVal) -> u64 {
    match v {
        RVal::F64(b) => *b,
        other => panic!("harness: expected f64 return value, got {:?}", other),
    }
}
pub fn r_bool(v: &RVal) -> bool {
    match v {
        RVal::Bool(b) => *b,
        other => panic!("harness: expected bool return value, got {:?}", other),
    }
}
pub fn r_str(v: &RVal) -> &str {
    match v {
        RVal::Str(s) => s,
        other => panic!("harness: expected str return value, got {:?}", other),
    }
}
pub fn r_bytes(v: &RVal) -> &[u8] {
    match v {
        RVal::Bytes(s) => s,
        other => panic!("harness: expected bytes return value, got {:?}", other),
    }
}
pub fn r_list(v: &RVal) -> &[RVal] {
    match v {
        RVal::List(s) => s,
        other => panic!("harness: expected list return value, got {:?}", other),
    }
}
pub fn r_i32s(v: &RVal) -> &[i32] {
    match v {
        RVal::I32s(s) => s,
        other => panic!("harness: expected i32 slice, got {:?}", other),
    }
}
pub fn r_u8s(v: &RVal) -> &[u8] {
    match v {
        RVal::U8s(s) => s,
        other => panic!("harness: expected u8 slice, got {:?}", other),
    }
}
pub fn r_f64s(v: &RVal) -> &[f64] {
    match v {
        RVal::F64s(s) => s,
        other => panic!("harness: expected f64 slice, got {:?}", other),
    }
}
pub fn r_bools(v: &RVal) -> &[bool] {
    match v {
        RVal::Bools(s) => s,
        other => panic!("harness: expected bool slice, got {:?}", other),
    }
}
pub fn r_err(v: &RVal) -> Error {
    match v {
        RVal::Err(n, t) => Error::Custom(*n, ERR_TEXTS[*t % ERR_TEXTS.len()]),
        other => panic!("harness: expected error return value, got {:?}", other),
    }
}

// -------------------------------------------------------------------------------------------------
// Recording error queue
// -------------------------------------------------------------------------------------------------

pub struct RecQueue<const Q: usize> {
    pub inner: StaticErrorQueue<Q>,
    pub log: Log,
}

impl<const Q: usize> Default for RecQueue<Q> {
    fn default() -> Self {
        RecQueue {
            inner: StaticErrorQueue::new(),
            log: Rc::new(RefCell::new(Vec::new())),
        }
    }
}

impl<const Q: usize> RecQueue<Q> {
    pub fn with_log(log: Log) -> Self {
        RecQueue {
            inner: StaticErrorQueue::new(),
            log,
        }
    }
}

impl<const Q: usize> ErrorQueue for RecQueue<Q> {
    fn error_count(&self) -> usize {
        let n = self.inner.error_count();
        self.log.borrow_mut().push(Ev::QCount { n });
        n
    }
    fn push_error(&mut self, error: Error) {
        let text: &str = error.into();
        self.log.borrow_mut().push(Ev::Error {
            num: error.number(),
            text: text.to_string(),
        });
        self.inner.push_error(error);
    }
    fn pop_error(&mut self) -> Option<Error> {
        let e = self.inner.pop_error();
        self.log.borrow_mut().push(Ev::QPop {
            num: e.map(|e| e.number()),
        });
        e
    }
}

// -------------------------------------------------------------------------------------------------
// Recording pass-through writer
// -------------------------------------------------------------------------------------------------

pub struct RecWriter {
    pub log: Log,
    pub pauses: Pauses,
}

impl RecWriter {
    pub fn new(log: Log) -> RecWriter {
        RecWriter {
            log,
            pauses: Pauses::default(),
        }
    }
    fn put(&mut self, b: &[u8]) {
        self.log.borrow_mut().push(Ev::Write(b.to_vec()));
    }
}

impl microscpi::Write for RecWriter {
    async fn write_bytes(&mut self, bytes: &[u8]) -> Result<(), Error> {
        self.pauses.next().await;
        self.put(bytes);
        Ok(())
    }
    async fn write_char(&mut self, c: char) -> Result<(), Error> {
        self.pauses.next().await;
        let mut buf = [0u8; 4];
        let s = c.encode_utf8(&mut buf);
        self.put(s.as_bytes());
        Ok(())
    }
    async fn write_str(&mut self, s: &str) -> Result<(), Error> {
        self.pauses.next().await;
        self.put(s.as_bytes());
        Ok(())
    }
    async fn write_fmt(&mut self, fmt: core::fmt::Arguments<'_>) -> Result<(), Error> {
        self.pauses.next().await;
        let s = std::fmt::format(fmt);
        self.put(s.as_bytes());
        Ok(())
    }
    async fn flush(&mut self) -> Result<(), Error> {
        self.pauses.next().await;
        self.log.borrow_mut().push(Ev::Flush);
        Ok(())
    }
}

// -------------------------------------------------------------------------------------------------
// Scripted transport adapter
// -------------------------------------------------------------------------------------------------

/// Serves `stream` according to `reads` (requested sizes; each capped by the destination and by
/// what is left; when the list is exhausted every read delivers as much as fits). After the stream
/// is exhausted `read` fails with token `EOF_TOKEN`. Call number `fail_at` (counting read, write
/// and flush calls from 0) fails with token `FAIL_BASE + fail_at`.
pub struct ScriptAdapter {
    pub stream: Vec<u8>,
    pub pos: usize,
    pub reads: Vec<usize>,
    pub read_idx: usize,
    pub log: Log,
    pub calls: usize,
    pub fail_at: Option<usize>,
    pub pauses: Pauses,
    /// a read was issued with an empty destination buffer
    pub empty_dst_reads: usize,
    /// calls made after an error had been returned
    pub calls_after_error: usize,
    pub errored: bool,
}

pub const EOF_TOKEN: u32 = 0xE0F;
pub const EMPTY_DST_TOKEN: u32 = 0xE0D;
pub const FAIL_BASE: u32 = 0x1000;

impl ScriptAdapter {
    pub fn new(stream: Vec<u8>, reads: Vec<usize>, log: Log) -> ScriptAdapter {
        ScriptAdapter {
            stream,
            pos: 0,
            reads,
            read_idx: 0,
            log,
            calls: 0,
            fail_at: None,
            pauses: Pauses::default(),
            empty_dst_reads: 0,
            calls_after_error: 0,
            errored: false,
        }
    }
    fn gate(&mut self) -> Result<(), u32> {
        if self.errored {
            self.calls_after_error += 1;
        }
        let k = self.calls;
        self.calls += 1;
        if self.fail_at == Some(k) {
            let token = FAIL_BASE + k as u32;
            self.errored = true;
            self.log.borrow_mut().push(Ev::AFail { token });
            return Err(token);
        }
        Ok(())
    }
}

impl Adapter for ScriptAdapter {
    type Error = u32;

    async fn read(&mut self, dst: &mut [u8]) -> Result<usize, u32> {
        self.pauses.next().await;
        self.gate()?;
        if dst.is_empty() {
            // a read that cannot deliver anything: with a real transport this never makes progress
            self.empty_dst_reads += 1;
            self.errored = true;
            self.log.borrow_mut().push(Ev::AFail { token: EMPTY_DST_TOKEN });
            return Err(EMPTY_DST_TOKEN);
        }
        if self.pos >= self.stream.len() {
            self.errored = true;
            self.log.borrow_mut().push(Ev::AFail { token: EOF_TOKEN });
            return Err(EOF_TOKEN);
        }
        let want = if self.read_idx < self.reads.len() {
            let w = self.reads[self.read_idx];
            self.read_idx += 1;
            w
        }
        else {
            usize::MAX
        };
        let n = want.min(dst.len()).min(self.stream.len() - self.pos);
        dst[..n].copy_from_slice(&self.stream[self.pos..self.pos + n]);
        self.pos += n;
        self.log.borrow_mut().push(Ev::ARead {
            dst_len: dst.len(),
            got: n,
        });
        Ok(n)
    }

    async fn write(&mut self, src: &[u8]) -> Result<(), u32> {
        self.pauses.next().await;
        self.gate()?;
        self.log.borrow_mut().push(Ev::AWrite(src.to_vec()));
        Ok(())
    }

    async fn flush(&mut self) -> Result<(), u32> {
        self.pauses.next().await;
        self.gate()?;
        self.log.borrow_mut().push(Ev::AFlush);
        Ok(())
    }
}

// -------------------------------------------------------------------------------------------------
// Running cases
// -------------------------------------------------------------------------------------------------

use vcore::gen::{Env, FailSpec};

pub fn fail_to_error(f: FailSpec) -> Error {
    match f {
        FailSpec::Custom(n, i) => Error::Custom(n, ERR_TEXTS[i % ERR_TEXTS.len()]),
        FailSpec::Std(i) => match i % vcore::gen::STD_ERRS.len() {
            0 => Error::ExecutionError,
            1 => Error::DataOutOfRange,
            2 => Error::HardwareError,
            3 => Error::SettingsConflict,
            4 => Error::QueueOverflow,
            _ => Error::UndefinedHeader,
        },
    }
}

pub fn new_iface<I: Fixture>(env: Option<&Env>, pauses: &[u8]) -> (I, Pauses) {
    let mut iface = I::new_fixture();
    let p = Pauses::new(pauses.to_vec());
    let st = iface.st();
    st.pauses = p.clone();
    if let Some(env) = env {
        st.rets = env.rets.clone();
        st.fail = env.fail.iter().map(|f| f.map(fail_to_error)).collect();
    }
    (iface, p)
}

pub struct RunOut {
    pub log: Vec<Ev>,
    /// bytes in the response buffer (empty for the recording writer, whose writes are in the log)
    pub out: Vec<u8>,
    pub rest: usize,
    /// the returned slice is empty or ends exactly where the input ends
    pub suffix_ok: bool,
    pub pendings: u64,
}

fn finish_run<I: Fixture>(mut iface: I, input: &[u8], rest: (usize, *const u8), out: Vec<u8>, pendings: u64) -> RunOut {
    let (rest_len, rest_ptr) = rest;
    let suffix_ok = rest_len == 0
        || (rest_len <= input.len() && rest_ptr as usize + rest_len == input.as_ptr() as usize + input.len());
    RunOut {
        log: iface.st().take_log(),
        out,
        rest: rest_len,
        suffix_ok,
        pendings,
    }
}

pub fn run_heapless<I: Fixture, const CAP: usize>(env: Option<&Env>, pauses: &[u8], input: &[u8]) -> RunOut {
    let (mut iface, _p) = new_iface::<I>(env, pauses);
    let mut w: heapless::Vec<u8, CAP> = heapless::Vec::new();
    let (rest, pendings) = block_on(async {
        let r = iface.run(input, &mut w).await;
        (r.len(), r.as_ptr())
    });
    let out = w.to_vec();
    finish_run(iface, input, rest, out, pendings)
}

pub fn run_stdvec<I: Fixture>(env: Option<&Env>, pauses: &[u8], input: &[u8]) -> RunOut {
    let (mut iface, _p) = new_iface::<I>(env, pauses);
    let mut w: std::vec::Vec<u8> = Vec::new();
    let (rest, pendings) = block_on(async {
        let r = iface.run(input, &mut w).await;
        (r.len(), r.as_ptr())
    });
    finish_run(iface, input, rest, w, pendings)
}

pub fn run_rec<I: Fixture>(env: Option<&Env>, pauses: &[u8], input: &[u8]) -> RunOut {
    let (mut iface, p) = new_iface::<I>(env, pauses);
    let mut w = RecWriter::new(iface.st().log.clone());
    w.pauses = p;
    let (rest, pendings) = block_on(async {
        let r = iface.run(input, &mut w).await;
        (r.len(), r.as_ptr())
    });
    finish_run(iface, input, rest, Vec::new(), pendings)
}

pub struct ProcOut {
    pub log: Vec<Ev>,
    pub result: Result<(), u32>,
    pub empty_dst_reads: usize,
    pub calls_after_error: usize,
    pub calls: usize,
    pub consumed: usize,
    pub pendings: u64,
}

pub fn process<I: Fixture, const N: usize>(
    env: Option<&Env>, pauses: &[u8], stream: &[u8], reads: &[usize], fail_at: Option<usize>,
) -> ProcOut {
    let (mut iface, p) = new_iface::<I>(env, pauses);
    let mut adapter = ScriptAdapter::new(stream.to_vec(), reads.to_vec(), iface.st().log.clone());
    adapter.pauses = p;
    adapter.fail_at = fail_at;
    let (result, pendings) = block_on(iface.process::<N, _>(&mut adapter));
    ProcOut {
        log: iface.st().take_log(),
        result,
        empty_dst_reads: adapter.empty_dst_reads,
        calls_after_error: adapter.calls_after_error,
        calls: adapter.calls,
        consumed: adapter.pos,
        pendings,
    }
}

/// Projection of a log used by the chunking-invariance oracles: handler and error events in order,
/// and the concatenation of all bytes written to the transport / writer.
pub fn observation(log: &[Ev], out: &[u8]) -> (Vec<Ev>, Vec<u8>) {
    let mut evs = Vec::new();
    let mut bytes = out.to_vec();
    for e in log {
        match e {
            Ev::Handler { .. } | Ev::Error { .. } => evs.push(e.clone()),
            Ev::AWrite(b) | Ev::Write(b) => bytes.extend_from_slice(b),
            _ => {}
        }
    }
    (evs, bytes)
}

/// Hands `msgs` one at a time to `run` on one interface, each with a fresh `heapless::Vec<u8, CAP>`.
pub fn run_seq_heapless<I: Fixture, const CAP: usize>(env: Option<&Env>, pauses: &[u8], msgs: &[&[u8]]) -> RunOut {
    let (mut iface, _p) = new_iface::<I>(env, pauses);
    let mut out = Vec::new();
    let mut suffix_ok = true;
    let mut rest_total = 0;
    let mut pend = 0;
    for m in msgs {
        let mut w: heapless::Vec<u8, CAP> = heapless::Vec::new();
        let ((rest_len, rest_ptr), pendings) = block_on(async {
            let r = iface.run(m, &mut w).await;
            (r.len(), r.as_ptr())
        });
        pend += pendings;
        suffix_ok &= rest_len == 0 || rest_ptr as usize + rest_len == m.as_ptr() as usize + m.len();
        rest_total += rest_len;
        out.extend_from_slice(&w);
    }
    RunOut {
        log: iface.st().take_log(),
        out,
        rest: rest_total,
        suffix_ok,
        pendings: pend,
    }
}

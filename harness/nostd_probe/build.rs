fn main() {
    let out = std::env::var("OUT_DIR").unwrap();
    let spec = vcore::fixtures::na();
    std::fs::write(format!("{}/generated.rs", out), vcore::codegen::emit_module_noalloc(&spec)).unwrap();
    println!("cargo:rerun-if-changed=build.rs");
}

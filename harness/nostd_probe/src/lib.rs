//! C13 (static half): a `#![no_std]` static library with a panic handler and NO global allocator
//! that instantiates `run`, `process`, both command traits and every non-allocating `Response`
//! implementation. If microscpi (default features) needed `std` or an allocator, this crate would
//! not build ("can't find crate for `std`" / "no global memory allocator found").
#![no_std]

use core::future::Future;
use core::pin::pin;
use core::task::{Context, Poll, RawWaker, RawWakerVTable, Waker};

use microscpi::{Adapter, Interface};

include!(concat!(env!("OUT_DIR"), "/generated.rs"));

#[panic_handler]
fn panic(_info: &core::panic::PanicInfo) -> ! {
    loop {}
}

fn noop_waker() -> Waker {
    fn clone(_: *const ()) -> RawWaker {
        RawWaker::new(core::ptr::null(), &VTABLE)
    }
    fn noop(_: *const ()) {}
    static VTABLE: RawWakerVTable = RawWakerVTable::new(clone, noop, noop, noop);
    unsafe { Waker::from_raw(RawWaker::new(core::ptr::null(), &VTABLE)) }
}

fn block_on<F: Future>(fut: F) -> F::Output {
    let mut fut = pin!(fut);
    let waker = noop_waker();
    let mut cx = Context::from_waker(&waker);
    loop {
        if let Poll::Ready(v) = fut.as_mut().poll(&mut cx) {
            return v;
        }
    }
}

struct RawAdapter {
    stream: *const u8,
    len: usize,
    pos: usize,
    written: usize,
}

impl Adapter for RawAdapter {
    type Error = ();
    async fn read(&mut self, dst: &mut [u8]) -> Result<usize, ()> {
        if self.pos >= self.len || dst.is_empty() {
            return Err(());
        }
        dst[0] = unsafe { *self.stream.add(self.pos) };
        self.pos += 1;
        Ok(1)
    }
    async fn write(&mut self, src: &[u8]) -> Result<(), ()> {
        self.written += src.len();
        Ok(())
    }
    async fn flush(&mut self) -> Result<(), ()> {
        Ok(())
    }
}

/// Entry point that keeps everything reachable.
#[no_mangle]
pub extern "C" fn microscpi_probe(input: *const u8, len: usize) -> usize {
    let data = unsafe { core::slice::from_raw_parts(input, len) };
    let mut iface = na::I::<4>::new();
    let mut out: heapless::Vec<u8, 256> = heapless::Vec::new();
    let rest = block_on(iface.run(data, &mut out)).len();
    let mut adapter = RawAdapter {
        stream: input,
        len,
        pos: 0,
        written: 0,
    };
    let _ = block_on(iface.process::<64, _>(&mut adapter));
    rest + out.len() + adapter.written + iface.calls.len()
}

//! Byte-level entry points with the semantic oracles inside: used by the libFuzzer targets and by
//! the `*.fuzz_replay` sub-checks that re-execute saved inputs.

use microscpi::parser::{parse, ParseError};
use microscpi::{Interface, Node};
use vcore::runner::esc;
use vrun::{Fixture, EOF_TOKEN};

use crate::{WITH_CAP_VALUES, WITH_N_VALUES};

type Mini = crate::mini::I<4>;

fn run_cap<const CAP: usize>(input: &[u8]) -> vrun::RunOut {
    vrun::run_heapless::<Mini, CAP>(None, &[], input)
}

fn proc_n<const N: usize>(pauses: &[u8], stream: &[u8], reads: &[usize]) -> vrun::ProcOut {
    vrun::process::<Mini, N>(None, pauses, stream, reads, None)
}

fn schedule(seed: u8, len: usize, n: usize) -> Vec<usize> {
    match seed % 5 {
        0 => vec![1; len],
        1 => vec![],
        2 => (0..len + 2).map(|i| ((seed as usize >> 3) + i * 7) % 5).collect(),
        3 => (0..len + 2).map(|i| if i % 2 == 0 { usize::MAX } else { 1 + (seed as usize >> 4) }).collect(),
        _ => (0..len + 2).map(|i| 1 + (i * (seed as usize | 1)) % n.max(1)).collect(),
    }
}

/// Input layout: [n index, cap index, schedule seed, pause seed, stream...]
/// Oracles: C05 (no panic - the caller catches it, run returns a suffix, process ends with EOF having
/// consumed everything and never reads into an empty slice) and C07 (observation under the decoded
/// schedule and Pending script equals the single-byte schedule).
pub fn stream_case(data: &[u8]) -> Result<(bool, bool), String> {
    stream_case_for(data, true, true)
}

/// `c05` / `c07` select which oracles are active (a campaign for one property must not stop at a
/// violation of the other).
pub fn stream_case_for(data: &[u8], c05: bool, c07: bool) -> Result<(bool, bool), String> {
    if data.len() < 4 {
        return Ok((false, false));
    }
    let n = WITH_N_VALUES[data[0] as usize % WITH_N_VALUES.len()];
    let cap = WITH_CAP_VALUES[data[1] as usize % WITH_CAP_VALUES.len()];
    let stream = &data[4..];
    let reads = schedule(data[2], stream.len(), n);
    let pauses: Vec<u8> = (0..(data[3] % 4)).map(|i| (data[3] >> (2 + i)) & 3).collect();
    let out = with_cap!(cap, run_cap, stream);
    if c05 && !out.suffix_ok {
        return Err(format!("C05: run('{}') returned a slice that is not a suffix of its input", esc(stream)));
    }
    let po = with_n!(n, proc_n, &pauses, stream, &reads);
    if c05 && po.empty_dst_reads > 0 {
        return Err(format!("C05: process::<{}>('{}') read into an empty buffer", n, esc(stream)));
    }
    if c05 && (po.result != Err(EOF_TOKEN) || po.consumed != stream.len()) {
        return Err(format!("C05: process::<{}>('{}') ended with {:?} after {} bytes", n, esc(stream), po.result, po.consumed));
    }
    let base = with_n!(n, proc_n, &[], stream, &vec![1; stream.len()]);
    let a = vrun::observation(&po.log, &[]);
    let b = vrun::observation(&base.log, &[]);
    if c07 && a != b {
        return Err(format!(
            "C07: process::<{}>('{}') differs between schedule {:?} and single-byte reads: [{}] '{}' vs [{}] '{}'",
            n,
            esc(stream),
            vrun::props::show_reads(&reads[..reads.len().min(24)]),
            vcore::ast::show_log(&a.0),
            esc(&a.1),
            vcore::ast::show_log(&b.0),
            esc(&b.1)
        ));
    }
    Ok((!a.0.is_empty(), n < stream.len()))
}

pub fn mini_nodes() -> Vec<&'static Node> {
    let root: &'static Node = Mini::new_fixture().root_node();
    let mut out: Vec<&'static Node> = vec![root];
    let mut i = 0;
    while i < out.len() {
        let n = out[i];
        for (_, child) in n.children {
            if !out.iter().any(|c| std::ptr::eq(*c, *child)) {
                out.push(child);
            }
        }
        i += 1;
    }
    out
}

/// Input layout: [start node index, split position, bytes...]; x = bytes[..split], y = the rest.
/// Oracle: clauses 1 and 2 of C12 for (x, y), and clause 3 for inputs with a terminator that cannot
/// be inside a string or block.
pub fn parse_case(nodes: &[&'static Node], data: &[u8]) -> Result<bool, String> {
    if data.len() < 2 {
        return Ok(false);
    }
    let root = nodes[0];
    let start = nodes[data[0] as usize % nodes.len()];
    let bytes = &data[2..];
    let split = (data[1] as usize).min(bytes.len());
    let x = &bytes[..split];
    let r = parse(root, start, x);
    match &r {
        Ok((rem, call)) => {
            if rem.len() >= x.len() {
                return Err(format!("C12: parse('{}') accepted without consuming a byte", esc(x)));
            }
            match parse(root, start, bytes) {
                Ok((rem2, call2)) => {
                    if rem2.len() != rem.len() + (bytes.len() - split) || call2 != *call {
                        return Err(format!(
                            "C12: parse('{}') and parse('{}') disagree although the first accepted a unit",
                            esc(x),
                            esc(bytes)
                        ));
                    }
                }
                Err(e) => {
                    return Err(format!("C12: parse('{}') accepted a unit but parse('{}') = {:?}", esc(x), esc(bytes), e));
                }
            }
            Ok(call.is_some())
        }
        Err(ParseError::Incomplete) => {
            if let Some(pos) = x.iter().position(|b| *b == b'\n') {
                if !x[..pos].iter().any(|b| matches!(b, b'\'' | b'"' | b'#')) {
                    return Err(format!("C12: parse('{}') = Incomplete although a terminator outside any string or block is present", esc(x)));
                }
            }
            Ok(false)
        }
        Err(e) => {
            if x.last() == Some(&b'\n') {
                if let Ok((_, call2)) = parse(root, start, bytes) {
                    return Err(format!(
                        "C12: parse('{}') is rejected with {:?} (not Incomplete) but its continuation '{}' is accepted ({})",
                        esc(x),
                        e,
                        esc(bytes),
                        if call2.is_some() { "unit" } else { "empty unit" }
                    ));
                }
                return Ok(true);
            }
            Ok(false)
        }
    }
}

/// Seed inputs of the campaigns (also executed by every run of the checks).
pub const STREAM_SEEDS: &[&[u8]] = &[
    b"\x07\x20\x02\x01A 1\n*E?\nH:E 'a\nb'\n",
    b"\x10\x05\x00\x00H:A 1.5e1;A?\nAE?\n",
    b"\x03\x00\x01\x02E:E? 9\n",
    b"\x0f\x08\x03\x00A:H 1,2,3,4,5,6,7,8,9,10\n",
    b"\x40\x40\x04\x07SYST:ERR?;COUN?\n*IDN?\n",
    b"\x08\x10\x02\x00H:H #13a\nb;A 1\n",
];

pub const PARSE_SEEDS: &[&[u8]] = &[b"\x00\x04A 1\nA?\n", b"\x01\x09A 1;E '\n';\n", b"\x00\x07H:H #12ab\n", b"\x02\x03A? \nx"];

/// Adds the statistics of a libFuzzer campaign run by ./check (thorough tier) as an evidence part.
pub fn campaign_part(h: &mut vcore::runner::Harness, prop: &str, name: &str) {
    let path = format!("/verif/target/fuzz_stats_{}.json", prop);
    let Ok(text) = std::fs::read_to_string(path) else { return };
    let Ok(v) = serde_json::from_str::<serde_json::Value>(&text) else { return };
    let mut st = vcore::runner::Stats::default();
    st.evals = v["executed"].as_u64().unwrap_or(0);
    st.class_n("libFuzzer executions", st.evals);
    // non-trivial cases are not counted inside the fuzzer process: reported as 0 (conservative)
    let v2 = v.clone();
    st.sample(|| v2);
    h.external_part(
        name,
        "coverage-guided libFuzzer campaign (cargo fuzz, no sanitizer: the library has no unsafe code; overflow checks and debug assertions on), the semantic oracle of this property inside the target, 12 independent jobs bounded by -runs, seeded with the inputs of fuzzing.rs, -len_control=0; distinct non-trivial cases are not counted inside the fuzzer (0 reported)",
        false,
        st,
    );
}

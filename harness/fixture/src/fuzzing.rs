//! Byte-level entry points with the semantic oracles inside: used by the libFuzzer targets and by
//! the `*.fuzz_replay` sub-checks that re-execute saved inputs.

use microscpi::parser::{parse, ParseError};
use microscpi::{Interface, Node};
use vcore::runner::esc;
use vrun::{Fixture, EOF_TOKEN};

use crate::{WITH_CAP_VALUES, WITH_N_VALUES};

type Mini = crate::mini::I<4>;

fn run_cap<const CAP: usize>(input: &[u8]) -> vrun::RunOut {
    vrun::run_heapless::<Mini, CAP>(None, &[], input)
}

fn proc_n<const N: usize>(pauses: &[u8], stream: &[u8], reads: &[usize]) -> vrun::ProcOut {
    vrun::process::<Mini, N>(None, pauses, stream, reads, None)
}

fn schedule(seed: u8, len: usize, n: usize) -> Vec<usize> {
    match seed % 5 {
        0 => vec![1; len],
        1 => vec![],
        2 => (0..len + 2).map(|i| ((seed as usize >> 3) + i * 7) % 5).collect(),
        3 => (0..len + 2).map(|i| if i % 2 == 0 { usize::MAX } else { 1 + (seed as usize >> 4) }).collect(),
        _ => (0..len + 2).map(|i| 1 + (i * (seed as usize | 1)) % n.max(1)).collect(),
    }
}

/// Input layout: [n index, cap index, schedule seed, pause seed, stream...]
/// Oracles: C05 (no panic - the caller catches it, run returns a suffix, process ends with EOF having
/// consumed everything and never reads into an empty slice) and C07 (observation under the decoded
/// schedule and Pending script equals the single-byte schedule).
pub fn stream_case(data: &[u8]) -> Result<(bool, bool), String> {
    if data.len() < 4 {
        return Ok((false, false));
    }
    let n = WITH_N_VALUES[data[0] as usize % WITH_N_VALUES.len()];
    let cap = WITH_CAP_VALUES[data[1] as usize % WITH_CAP_VALUES.len()];
    let stream = &data[4..];
    let reads = schedule(data[2], stream.len(), n);
    let pauses: Vec<u8> = (0..(data[3] % 4)).map(|i| (data[3] >> (2 + i)) & 3).collect();
    let out = with_cap!(cap, run_cap, stream);
    if !out.suffix_ok {
        return Err(format!("C05: run('{}') returned a slice that is not a suffix of its input", esc(stream)));
    }
    let po = with_n!(n, proc_n, &pauses, stream, &reads);
    if po.empty_dst_reads > 0 {
        return Err(format!("C05: process::<{}>('{}') read into an empty buffer", n, esc(stream)));
    }
    if po.result != Err(EOF_TOKEN) || po.consumed != stream.len() {
        return Err(format!("C05: process::<{}>('{}') ended with {:?} after {} bytes", n, esc(stream), po.result, po.consumed));
    }
    let base = with_n!(n, proc_n, &[], stream, &vec![1; stream.len()]);
    let a = vrun::observation(&po.log, &[]);
    let b = vrun::observation(&base.log, &[]);
    if a != b {
        return Err(format!(
            "C07: process::<{}>('{}') differs between schedule {:?} and single-byte reads: [{}] '{}' vs [{}] '{}'",
            n,
            esc(stream),
            vrun::props::show_reads(&reads[..reads.len().min(24)]),
            vcore::ast::show_log(&a.0),
            esc(&a.1),
            vcore::ast::show_log(&b.0),
            esc(&b.1)
        ));
    }
    Ok((!a.0.is_empty(), n < stream.len()))
}

pub fn mini_nodes() -> Vec<&'static Node> {
    let root: &'static Node = Mini::new_fixture().root_node();
    let mut out: Vec<&'static Node> = vec![root];
    let mut i = 0;
    while i < out.len() {
        let n = out[i];
        for (_, child) in n.children {
            if !out.iter().any(|c| std::ptr::eq(*c, *child)) {
                out.push(child);
            }
        }
        i += 1;
    }
    out
}

/// Input layout: [start node index, split position, bytes...]; x = bytes[..split], y = the rest.
/// Oracle: clauses 1 and 2 of C12 for (x, y), and clause 3 for inputs with a terminator that cannot
/// be inside a string or block.
pub fn parse_case(nodes: &[&'static Node], data: &[u8]) -> Result<bool, String> {
    if data.len() < 2 {
        return Ok(false);
    }
    let root = nodes[0];
    let start = nodes[data[0] as usize % nodes.len()];
    let bytes = &data[2..];
    let split = (data[1] as usize).min(bytes.len());
    let x = &bytes[..split];
    let r = parse(root, start, x);
    match &r {
        Ok((rem, call)) => {
            if rem.len() >= x.len() {
                return Err(format!("C12: parse('{}') accepted without consuming a byte", esc(x)));
            }
            match parse(root, start, bytes) {
                Ok((rem2, call2)) => {
                    if rem2.len() != rem.len() + (bytes.len() - split) || call2 != *call {
                        return Err(format!(
                            "C12: parse('{}') and parse('{}') disagree although the first accepted a unit",
                            esc(x),
                            esc(bytes)
                        ));
                    }
                }
                Err(e) => {
                    return Err(format!("C12: parse('{}') accepted a unit but parse('{}') = {:?}", esc(x), esc(bytes), e));
                }
            }
            Ok(call.is_some())
        }
        Err(ParseError::Incomplete) => {
            if let Some(pos) = x.iter().position(|b| *b == b'\n') {
                if !x[..pos].iter().any(|b| matches!(b, b'\'' | b'"' | b'#')) {
                    return Err(format!("C12: parse('{}') = Incomplete although a terminator outside any string or block is present", esc(x)));
                }
            }
            Ok(false)
        }
        Err(e) => {
            if x.last() == Some(&b'\n') {
                if let Ok((_, call2)) = parse(root, start, bytes) {
                    return Err(format!(
                        "C12: parse('{}') is rejected with {:?} (not Incomplete) but its continuation '{}' is accepted ({})",
                        esc(x),
                        e,
                        esc(bytes),
                        if call2.is_some() { "unit" } else { "empty unit" }
                    ));
                }
                return Ok(true);
            }
            Ok(false)
        }
    }
}

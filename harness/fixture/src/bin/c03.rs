//! C03 - handlers receive exactly the argument values written, or are not called.

use microscpi::Value;
use serde_json::json;
use vcore::ast::{show_log, ArgVal, Lit};
use vcore::gen::{self, Env, Item};
use vcore::lits::{expect, satisfies, Expect};
use vcore::lits_c03::gen_c03_lit;
use vcore::runner::{esc, replay_tape, Harness, Stats};
use vcore::spec::{parse_cmd, Model, Ty, ALL_TYS};
use vcore::tape::Tape;

type TyI = fixture::ty::I<8>;

fn long_header(cmd: &str) -> String {
    let (nodes, q) = parse_cmd(cmd);
    let mut s = nodes.iter().map(|n| n.long()).collect::<Vec<_>>().join(":");
    if q {
        s.push('?');
    }
    s
}

fn is_nontrivial_class(class: &str) -> bool {
    vrun::props::c03_nontrivial_class(class)
}

fn sig_prop(model: &Model, sigs: &[usize], tape: &[u32], st: &mut Stats) -> Result<(), String> {
    let run_rec = |env: &Env, pauses: &[u8], input: &[u8]| vrun::run_rec::<TyI>(Some(env), pauses, input);
    let process = |env: &Env, _n: usize, pauses: &[u8], stream: &[u8], reads: &[usize]| {
        vrun::process::<TyI, 4096>(Some(env), pauses, stream, reads, None)
    };
    let ex = vrun::props::Exec {
        run_rec: &run_rec,
        process: &process,
        sizes: &[4096],
        qcap: 8,
    };
    vrun::props::c03_sig_prop(model, &ex, sigs, tape, st)
}

fn lit_to_value(l: &Lit) -> Option<Value<'_>> {
    Some(match l {
        Lit::Dec(s) => Value::Decimal(s),
        Lit::NonDec { radix: 16, digits, .. } => Value::Hexadecimal(digits),
        Lit::NonDec { radix: 8, digits, .. } => Value::Octal(digits),
        Lit::NonDec { digits, .. } => Value::Binary(digits),
        Lit::Chars(s) => Value::Characters(s),
        Lit::Str { body, .. } => Value::String(std::str::from_utf8(body).ok()?),
        Lit::Block { body, .. } => Value::Arbitrary(body),
    })
}

fn convert(v: &Value<'_>, ty: Ty) -> Result<ArgVal, i16> {
    macro_rules! int {
        ($t:ty) => {{
            let r: Result<$t, microscpi::Error> = v.try_into();
            r.map(|x| ArgVal::Int(x as i128)).map_err(|e| e.number())
        }};
    }
    match ty {
        Ty::U8 => int!(u8),
        Ty::I8 => int!(i8),
        Ty::U16 => int!(u16),
        Ty::I16 => int!(i16),
        Ty::U32 => int!(u32),
        Ty::I32 => int!(i32),
        Ty::U64 => int!(u64),
        Ty::I64 => int!(i64),
        Ty::Usize => int!(usize),
        Ty::Isize => int!(isize),
        Ty::F32 => {
            let r: Result<f32, microscpi::Error> = v.try_into();
            r.map(|x| ArgVal::F32(x.to_bits())).map_err(|e| e.number())
        }
        Ty::F64 => {
            let r: Result<f64, microscpi::Error> = v.try_into();
            r.map(|x| ArgVal::F64(x.to_bits())).map_err(|e| e.number())
        }
        Ty::Bool => {
            let r: Result<bool, microscpi::Error> = v.try_into();
            r.map(ArgVal::Bool).map_err(|e| e.number())
        }
        Ty::Str => {
            let r: Result<&str, microscpi::Error> = v.try_into();
            r.map(|x| ArgVal::Str(x.as_bytes().to_vec())).map_err(|e| e.number())
        }
        Ty::Bytes => {
            let r: Result<&[u8], microscpi::Error> = v.try_into();
            r.map(|x| ArgVal::Bytes(x.to_vec())).map_err(|e| e.number())
        }
    }
}

/// `TryInto<T> for &Value` without the parser in the loop.
fn direct_prop(tape: &[u32], st: &mut Stats) -> Result<(), String> {
    let mut t = Tape::new(tape);
    let ty = ALL_TYS[t.below(ALL_TYS.len())];
    let (lit, class) = gen_c03_lit(&mut t, ty);
    let Some(value) = lit_to_value(&lit) else { return Ok(()) };
    let got = convert(&value, ty);
    let e = expect(&lit, ty);
    let ctx = |m: String| format!("{} [TryInto<{}> for {:?}]", m, ty.rust(), value);
    match (&e, &got) {
        (Expect::Value(w), Ok(g)) | (Expect::Either(w, _), Ok(g)) => {
            if !satisfies(w, g) {
                return Err(ctx(format!("converted to {} (wanted {:?})", g.show(), w)));
            }
        }
        (Expect::Value(w), Err(n)) => return Err(ctx(format!("rejected with {} although the literal fits (wanted {:?})", n, w))),
        (Expect::Reject(nums), Ok(g)) => return Err(ctx(format!("converted to {} although it must be rejected with one of {:?}", g.show(), nums))),
        (Expect::Reject(nums), Err(n)) | (Expect::Either(_, nums), Err(n)) => {
            if !nums.contains(n) {
                return Err(ctx(format!("rejected with {} instead of one of {:?}", n, nums)));
            }
        }
    }
    st.class(&format!("{} -> {}", class, e.class()));
    if is_nontrivial_class(class) {
        st.nontrivial(&(ty, &lit));
    }
    st.sample(|| json!({ "type": ty.rust(), "literal": esc(&lit.rendered()), "class": class }));
    Ok(())
}

fn main() {
    let mut h = Harness::from_args("C03");
    let spec = vrun::spec_of(fixture::ty::SPEC_JSON);
    let model = Model::build(&spec).expect("ty fixture is collision-free");
    let sigs: Vec<usize> = (0..model.spec.decls.len()).filter(|i| model.spec.decls[*i].cmd.starts_with("ARG:")).collect();
    h.assume("lenient classes (either the stated rejection or delivery of the mathematically exact value, never anything else): integral decimals written with '.'/exponent into integers, -0 into unsigned integers, float overflow (+-inf of the right sign or -120), #H/#Q/#B into floats, TRUE/FALSE, mixed-case On/Off, other spellings of exactly 0 or 1 into bool");
    h.assume("correct rounding is verified by exact integer arithmetic for literals up to 1300 digits and |exponent| <= 1600; beyond that only 'not NaN'");
    let cases = h.tier.pick(500_000, 6_000_000);
    h.check(
        "c03.signatures",
        "proptest tapes -> one command of the ty fixture (15 single-parameter commands, one per type in {u8..u64,i8..i64,usize,isize,f32,f64,bool,&str,&[u8]}, and signatures with 0,1,2,3,5,10 parameters of mixed types, sync and async, command and query) with one generated literal per parameter (integers at/just beyond/far beyond each bound and in range modulo 2^bits, in decimal with sign/leading zeros and in #H/#Q/#B with both letter cases; decimal reals with up to 25+25 digits and exponents, exact decimal expansions of midpoints between adjacent f32/f64 values perturbed in a far digit and respelled with exponents, overflow/underflow thresholds; boolean spellings; strings; blocks incl. zero-padded lengths; mismatched kinds) and, in 1/8 of the cases, 0..12 parameters instead of the declared number: handler invoked exactly once with exactly the written values (floats judged by exact arithmetic) and no error, or not invoked and exactly one error with a number the offending literals allow; non-trivial = a literal at a bound, in another radix class, at a rounding boundary, of a mismatched kind, or a wrong parameter count",
        false,
        |h, st| h.tape_search("c03.signatures", cases, 160, st, |tape, st| sig_prop(&model, &sigs, tape, st)),
        |case| replay_tape(case, |tape, st| sig_prop(&model, &sigs, tape, st)),
    );
    let cases = h.tier.pick(500_000, 6_000_000);
    h.check(
        "c03.direct",
        "proptest tapes -> (type, literal) from the same generators, converted with TryInto<T> for &Value directly (no parser in the loop) and judged by the same reference semantics",
        false,
        |h, st| h.tape_search("c03.direct", cases, 80, st, |tape, st| direct_prop(tape, st)),
        |case| replay_tape(case, |tape, st| direct_prop(tape, st)),
    );
    h.finish();
}

//! C03 - handlers receive exactly the argument values written, or are not called.

use microscpi::Value;
use serde_json::json;
use vcore::ast::{show_log, ArgVal, Lit};
use vcore::gen::{self, Env, Item};
use vcore::lits::{expect, satisfies, Expect};
use vcore::lits_c03::gen_c03_lit;
use vcore::runner::{esc, replay_tape, Harness, Stats};
use vcore::spec::{parse_cmd, Model, Ty, ALL_TYS};
use vcore::tape::Tape;

type TyI = fixture::ty::I<8>;

fn long_header(cmd: &str) -> String {
    let (nodes, q) = parse_cmd(cmd);
    let mut s = nodes.iter().map(|n| n.long()).collect::<Vec<_>>().join(":");
    if q {
        s.push('?');
    }
    s
}

fn is_nontrivial_class(class: &str) -> bool {
    class.contains("bound")
        || class.contains("modulo")
        || class.contains("power of two")
        || class.contains("midpoint")
        || class.contains("threshold")
        || class.contains("subnormal")
        || class.contains("mismatched")
        || class.contains("non-decimal")
        || class.contains("real-number")
        || class.contains("other")
        || class.contains("spelled zero")
}

fn sig_prop(model: &Model, sigs: &[usize], tape: &[u32], st: &mut Stats) -> Result<(), String> {
    let mut t = Tape::new(tape);
    let id = sigs[t.below(sigs.len())];
    let d = &model.spec.decls[id];
    let env = Env::new(model, 8);
    // number of parameters supplied: usually the declared one
    let declared = d.params.len();
    let supplied = if t.chance(1, 8) { t.below(13) } else { declared };
    let mut lits: Vec<Lit> = Vec::new();
    let mut classes: Vec<&'static str> = Vec::new();
    for i in 0..supplied {
        let ty = if i < declared { d.params[i] } else { ALL_TYS[t.below(ALL_TYS.len())] };
        let (l, c) = gen_c03_lit(&mut t, ty);
        lits.push(l);
        classes.push(c);
    }
    let mut msg = long_header(&d.cmd).into_bytes();
    for (i, l) in lits.iter().enumerate() {
        msg.push(if i == 0 { b' ' } else { b',' });
        l.render(&mut msg);
    }
    msg.push(b'\n');
    let out = vrun::run_rec::<TyI>(Some(&env), &[], &msg);
    let its = gen::items(&out.log);
    let ctx = |e: String| format!("{} [message '{}' declared {:?} log: {}]", e, esc(&msg), d.params, show_log(&out.log));
    let handlers: Vec<(&usize, &Vec<ArgVal>)> = its
        .iter()
        .filter_map(|i| match i {
            Item::H { id, args } => Some((id, args)),
            _ => None,
        })
        .collect();
    let errors: Vec<i16> = its
        .iter()
        .filter_map(|i| match i {
            Item::E { num, .. } => Some(*num),
            _ => None,
        })
        .collect();
    if supplied != declared {
        st.class("parameter count differs from the declaration");
        st.nontrivial(&msg);
        if !handlers.is_empty() {
            return Err(ctx(format!("handler invoked with {} parameters supplied for {} declared", supplied, declared)));
        }
        if errors.len() != 1 {
            return Err(ctx(format!("{} errors reported for a wrong parameter count (exactly one expected)", errors.len())));
        }
        return Ok(());
    }
    let expects: Vec<Expect> = lits.iter().zip(&d.params).map(|(l, ty)| expect(l, *ty)).collect();
    for (c, e) in classes.iter().zip(&expects) {
        st.class(&format!("{} -> {}", c, e.class()));
    }
    let any_reject = expects.iter().any(|e| matches!(e, Expect::Reject(_)));
    let any_either = expects.iter().any(|e| matches!(e, Expect::Either(..)));
    match handlers.as_slice() {
        [(hid, args)] => {
            if **hid != id {
                return Err(ctx(format!("handler {} invoked instead of {}", hid, id)));
            }
            if any_reject {
                return Err(ctx("handler invoked although a literal does not fit its parameter".into()));
            }
            if !errors.is_empty() {
                return Err(ctx("handler invoked and an error reported".into()));
            }
            if args.len() != declared {
                return Err(ctx(format!("handler received {} arguments", args.len())));
            }
            for (i, (e, got)) in expects.iter().zip(args.iter()).enumerate() {
                let want = match e {
                    Expect::Value(w) | Expect::Either(w, _) => w,
                    Expect::Reject(_) => unreachable!(),
                };
                if !satisfies(want, got) {
                    return Err(ctx(format!(
                        "parameter {} written as '{}' was delivered as {} (wanted {:?})",
                        i + 1,
                        esc(&lits[i].rendered()),
                        got.show(),
                        want
                    )));
                }
            }
        }
        [] => {
            if !any_reject && !any_either {
                return Err(ctx("handler not invoked although every literal fits its parameter".into()));
            }
            if errors.len() != 1 {
                return Err(ctx(format!("{} errors reported for a rejected parameter list (exactly one expected)", errors.len())));
            }
            let mut allowed: Vec<i16> = Vec::new();
            for e in &expects {
                match e {
                    Expect::Reject(n) | Expect::Either(_, n) => allowed.extend_from_slice(n),
                    _ => {}
                }
            }
            if !allowed.contains(&errors[0]) {
                return Err(ctx(format!("rejected with error {} but the offending literals call for one of {:?}", errors[0], allowed)));
            }
        }
        _ => return Err(ctx(format!("handler invoked {} times", handlers.len()))),
    }
    if classes.iter().any(|c| is_nontrivial_class(c)) {
        st.nontrivial(&msg);
    }
    st.sample(|| json!({ "message": esc(&msg[..msg.len().min(160)]), "classes": classes }));
    Ok(())
}

fn lit_to_value(l: &Lit) -> Option<Value<'_>> {
    Some(match l {
        Lit::Dec(s) => Value::Decimal(s),
        Lit::NonDec { radix: 16, digits, .. } => Value::Hexadecimal(digits),
        Lit::NonDec { radix: 8, digits, .. } => Value::Octal(digits),
        Lit::NonDec { digits, .. } => Value::Binary(digits),
        Lit::Chars(s) => Value::Characters(s),
        Lit::Str { body, .. } => Value::String(std::str::from_utf8(body).ok()?),
        Lit::Block { body, .. } => Value::Arbitrary(body),
    })
}

fn convert(v: &Value<'_>, ty: Ty) -> Result<ArgVal, i16> {
    macro_rules! int {
        ($t:ty) => {{
            let r: Result<$t, microscpi::Error> = v.try_into();
            r.map(|x| ArgVal::Int(x as i128)).map_err(|e| e.number())
        }};
    }
    match ty {
        Ty::U8 => int!(u8),
        Ty::I8 => int!(i8),
        Ty::U16 => int!(u16),
        Ty::I16 => int!(i16),
        Ty::U32 => int!(u32),
        Ty::I32 => int!(i32),
        Ty::U64 => int!(u64),
        Ty::I64 => int!(i64),
        Ty::Usize => int!(usize),
        Ty::Isize => int!(isize),
        Ty::F32 => {
            let r: Result<f32, microscpi::Error> = v.try_into();
            r.map(|x| ArgVal::F32(x.to_bits())).map_err(|e| e.number())
        }
        Ty::F64 => {
            let r: Result<f64, microscpi::Error> = v.try_into();
            r.map(|x| ArgVal::F64(x.to_bits())).map_err(|e| e.number())
        }
        Ty::Bool => {
            let r: Result<bool, microscpi::Error> = v.try_into();
            r.map(ArgVal::Bool).map_err(|e| e.number())
        }
        Ty::Str => {
            let r: Result<&str, microscpi::Error> = v.try_into();
            r.map(|x| ArgVal::Str(x.as_bytes().to_vec())).map_err(|e| e.number())
        }
        Ty::Bytes => {
            let r: Result<&[u8], microscpi::Error> = v.try_into();
            r.map(|x| ArgVal::Bytes(x.to_vec())).map_err(|e| e.number())
        }
    }
}

/// `TryInto<T> for &Value` without the parser in the loop.
fn direct_prop(tape: &[u32], st: &mut Stats) -> Result<(), String> {
    let mut t = Tape::new(tape);
    let ty = ALL_TYS[t.below(ALL_TYS.len())];
    let (lit, class) = gen_c03_lit(&mut t, ty);
    let Some(value) = lit_to_value(&lit) else { return Ok(()) };
    let got = convert(&value, ty);
    let e = expect(&lit, ty);
    let ctx = |m: String| format!("{} [TryInto<{}> for {:?}]", m, ty.rust(), value);
    match (&e, &got) {
        (Expect::Value(w), Ok(g)) | (Expect::Either(w, _), Ok(g)) => {
            if !satisfies(w, g) {
                return Err(ctx(format!("converted to {} (wanted {:?})", g.show(), w)));
            }
        }
        (Expect::Value(w), Err(n)) => return Err(ctx(format!("rejected with {} although the literal fits (wanted {:?})", n, w))),
        (Expect::Reject(nums), Ok(g)) => return Err(ctx(format!("converted to {} although it must be rejected with one of {:?}", g.show(), nums))),
        (Expect::Reject(nums), Err(n)) | (Expect::Either(_, nums), Err(n)) => {
            if !nums.contains(n) {
                return Err(ctx(format!("rejected with {} instead of one of {:?}", n, nums)));
            }
        }
    }
    st.class(&format!("{} -> {}", class, e.class()));
    if is_nontrivial_class(class) {
        st.nontrivial(&(ty, &lit));
    }
    st.sample(|| json!({ "type": ty.rust(), "literal": esc(&lit.rendered()), "class": class }));
    Ok(())
}

fn main() {
    let mut h = Harness::from_args("C03");
    let spec = vrun::spec_of(fixture::ty::SPEC_JSON);
    let model = Model::build(&spec).expect("ty fixture is collision-free");
    let sigs: Vec<usize> = (0..model.spec.decls.len()).filter(|i| model.spec.decls[*i].cmd.starts_with("ARG:")).collect();
    h.assume("lenient classes (either the stated rejection or delivery of the mathematically exact value, never anything else): integral decimals written with '.'/exponent into integers, -0 into unsigned integers, float overflow (+-inf of the right sign or -120), #H/#Q/#B into floats, TRUE/FALSE, mixed-case On/Off, other spellings of exactly 0 or 1 into bool");
    h.assume("correct rounding is verified by exact integer arithmetic for literals up to 1300 digits and |exponent| <= 1600; beyond that only 'not NaN'");
    let cases = h.tier.pick(200_000, 6_000_000);
    h.check(
        "c03.signatures",
        "proptest tapes -> one command of the ty fixture (15 single-parameter commands, one per type in {u8..u64,i8..i64,usize,isize,f32,f64,bool,&str,&[u8]}, and signatures with 0,1,2,3,5,10 parameters of mixed types, sync and async, command and query) with one generated literal per parameter (integers at/just beyond/far beyond each bound and in range modulo 2^bits, in decimal with sign/leading zeros and in #H/#Q/#B with both letter cases; decimal reals with up to 25+25 digits and exponents, exact decimal expansions of midpoints between adjacent f32/f64 values perturbed in a far digit and respelled with exponents, overflow/underflow thresholds; boolean spellings; strings; blocks incl. zero-padded lengths; mismatched kinds) and, in 1/8 of the cases, 0..12 parameters instead of the declared number: handler invoked exactly once with exactly the written values (floats judged by exact arithmetic) and no error, or not invoked and exactly one error with a number the offending literals allow; non-trivial = a literal at a bound, in another radix class, at a rounding boundary, of a mismatched kind, or a wrong parameter count",
        false,
        |h, st| h.tape_search("c03.signatures", cases, 160, st, |tape, st| sig_prop(&model, &sigs, tape, st)),
        |case| replay_tape(case, |tape, st| sig_prop(&model, &sigs, tape, st)),
    );
    let cases = h.tier.pick(200_000, 6_000_000);
    h.check(
        "c03.direct",
        "proptest tapes -> (type, literal) from the same generators, converted with TryInto<T> for &Value directly (no parser in the loop) and judged by the same reference semantics",
        false,
        |h, st| h.tape_search("c03.direct", cases, 80, st, |tape, st| direct_prop(tape, st)),
        |case| replay_tape(case, |tape, st| direct_prop(tape, st)),
    );
    h.finish();
}

//! C07 - process depends only on the byte stream, not on how it arrives.

use fixture::streams::{gen_env, gen_reads, gen_stream_case, ALPHABET, GARBAGE};
use fixture::{with_n, WITH_CAP_VALUES, WITH_N_VALUES};
use serde_json::json;
use vcore::ast::{show_log, Ev};
use vcore::gen::{self, Env, GenCfg, Index};
use vcore::runner::{esc, replay_tape, Harness, Stats};
use vcore::spec::Model;
use vcore::tape::Tape;
use vrun::{ProcOut, RunOut};

type Mini = fixture::mini::I<4>;

fn proc_n<const N: usize>(env: Option<&Env>, pauses: &[u8], stream: &[u8], reads: &[usize]) -> ProcOut {
    vrun::process::<Mini, N>(env, pauses, stream, reads, None)
}

fn run_seq_n<const N: usize>(env: Option<&Env>, pauses: &[u8], msgs: &[&[u8]]) -> RunOut {
    vrun::run_seq_heapless::<Mini, N>(env, pauses, msgs)
}

type Obs = (Vec<Ev>, Vec<u8>);

fn observe(env: &Env, n: usize, pauses: &[u8], stream: &[u8], reads: &[usize]) -> Obs {
    let po = with_n!(n, proc_n, Some(env), pauses, stream, reads);
    vrun::observation(&po.log, &[])
}

fn diff(a: &Obs, b: &Obs) -> String {
    if a.0 != b.0 {
        format!("events differ: [{}] vs [{}]", show_log(&a.0), show_log(&b.0))
    }
    else {
        format!("written bytes differ: '{}' vs '{}'", esc(&a.1), esc(&b.1))
    }
}

fn interesting(o: &Obs) -> bool {
    !o.0.is_empty()
}

/// Short stream: 1-3 tiny segments, at most `max_len` bytes.
fn gen_short_stream(t: &mut Tape, ix: &Index, max_len: usize) -> Vec<u8> {
    const TINY: &[&[u8]] = &[
        b"A 1\n", b"*A\n", b"A?\n", b"*E?\n", b"E ON\n", b"X\n", b"A\n", b"A 1;A?\n", b"H:A?\n", b"AE?\n", b"\n", b";\n",
        b"A 1;\n", b"H:E 'a'\n", b"H:E '\n'\n", b"H:H #11\n", b"H:H #1\n\n", b"A 1 2\n", b"A 300\n", b"E:E? 3\n", b"A 1",
        b"'", b"#12", b" \r\n", b"H:A 1;E 1\n", b"H:A 1;A?\n", b"A:A? 'b'\n",
    ];
    let mut s: Vec<u8> = Vec::new();
    let k = t.range(1, 3);
    let cfg = GenCfg {
        max_units: 2,
        ..GenCfg::default()
    };
    for _ in 0..k {
        let seg: Vec<u8> = match t.weighted(&[3, 3, 1]) {
            0 => TINY[t.below(TINY.len())].to_vec(),
            1 => gen::gen_message(t, ix, &cfg).rendered(),
            _ => {
                let n = t.range(1, 4);
                (0..n).map(|_| ALPHABET[t.below(ALPHABET.len())]).collect()
            }
        };
        if s.len() + seg.len() <= max_len {
            s.extend_from_slice(&seg);
        }
    }
    if s.is_empty() {
        s.extend_from_slice(b"A 1\n");
    }
    s
}

fn compositions_prop(model: &Model, ix: &Index, tape: &[u32], st: &mut Stats, max_len: usize) -> Result<(), String> {
    let mut t = Tape::new(tape);
    let env = gen_env(&mut t, model);
    let stream = gen_short_stream(&mut t, ix, max_len);
    let n = match t.weighted(&[4, 2, 1]) {
        0 => fixture::streams::pick_n(&mut t, &stream, WITH_N_VALUES),
        1 => t.range(1, 16),
        _ => t.range(1, stream.len().max(1)),
    };
    let len = stream.len();
    let base = observe(&env, n, &[], &stream, &vec![1; len]);
    let count = 1u64 << (len - 1);
    for mask in 0..count {
        // bit i set = a read boundary after byte i
        let mut reads = Vec::new();
        let mut cur = 1;
        for i in 0..len - 1 {
            if mask >> i & 1 == 1 {
                reads.push(cur);
                cur = 1;
            }
            else {
                cur += 1;
            }
        }
        reads.push(cur);
        let o = observe(&env, n, &[], &stream, &reads);
        st.evals_add(1);
        if o != base {
            return Err(format!(
                "process::<{}> on stream '{}': reads {:?} vs single-byte reads: {}",
                n,
                esc(&stream),
                reads,
                diff(&o, &base)
            ));
        }
    }
    if interesting(&base) {
        st.class("streams with events");
        st.nontrivial(&(&stream, n));
        if n < len {
            st.class("stream longer than N");
        }
    }
    st.class_n("schedules", count);
    st.sample(|| json!({ "stream": esc(&stream), "N": n, "schedules": count }));
    Ok(())
}

fn random_prop(model: &Model, ix: &Index, tape: &[u32], st: &mut Stats) -> Result<(), String> {
    let mut t = Tape::new(tape);
    let c = gen_stream_case(&mut t, model, ix, WITH_N_VALUES, WITH_CAP_VALUES);
    let base = observe(&c.env, c.n, &[], &c.stream, &vec![1; c.stream.len()]);
    let variants = 4;
    let mut first_reads = c.reads.clone();
    for v in 0..variants {
        let reads = if v == 0 { std::mem::take(&mut first_reads) } else { gen_reads(&mut t, c.stream.len(), c.n) };
        let np = t.below(5);
        let pauses: Vec<u8> = (0..np).map(|_| t.below(4) as u8).collect();
        let o = observe(&c.env, c.n, &pauses, &c.stream, &reads);
        if o != base {
            let shown: Vec<i64> = reads.iter().map(|r| if *r == usize::MAX { -1 } else { *r as i64 }).collect();
            return Err(format!(
                "process::<{}> on stream '{}': reads {:?} (-1 = as much as fits) pauses {:?} vs single-byte reads: {}",
                c.n,
                esc(&c.stream),
                shown,
                pauses,
                diff(&o, &base)
            ));
        }
        if interesting(&base) {
            let inner_boundary = reads.iter().any(|r| *r < c.stream.len());
            if inner_boundary || reads.contains(&0) {
                st.nontrivial(&(&c.stream, c.n, &reads, &pauses));
            }
            if reads.contains(&0) {
                st.class("schedule with empty read");
            }
            if reads.contains(&usize::MAX) {
                st.class("schedule with buffer-filling read");
            }
            if !pauses.is_empty() {
                st.class("with Pending injection");
            }
        }
    }
    if c.n < c.stream.len() {
        st.class("stream longer than N");
    }
    st.sample(|| json!({ "stream": esc(&c.stream), "N": c.n }));
    Ok(())
}

/// Complete messages (terminated, no inner newline, nothing left open), each at most N bytes.
fn vs_run_prop(model: &Model, ix: &Index, tape: &[u32], st: &mut Stats) -> Result<(), String> {
    let mut t = Tape::new(tape);
    let env = gen_env(&mut t, model);
    let k = t.range(1, 6);
    let cfg = GenCfg::default();
    let mut msgs: Vec<Vec<u8>> = Vec::new();
    for _ in 0..k {
        let m: Vec<u8> = match t.weighted(&[5, 3, 2]) {
            0 => gen::gen_message(&mut t, ix, &cfg).rendered(),
            1 => {
                let mut m = gen::gen_message(&mut t, ix, &cfg).rendered();
                if m.iter().any(|b| matches!(b, b'\'' | b'"' | b'#')) {
                    m
                }
                else {
                    // byte-level mutation of the body, never touching the terminator, never
                    // introducing a newline, quote or '#'
                    let body = m.len() - 1;
                    if body > 0 {
                        let pos = t.below(body);
                        let c = b"AEH*:;, ?12.e+@x"[t.below(16)];
                        match t.below(3) {
                            0 => {
                                m.remove(pos);
                            }
                            1 => m.insert(pos, c),
                            _ => m[pos] = c,
                        }
                    }
                    m
                }
            }
            _ => {
                let g = GARBAGE[t.below(GARBAGE.len())];
                if g.iter().any(|b| matches!(b, b'\'' | b'"' | b'#' | b'\n')) {
                    b"@\n".to_vec()
                }
                else {
                    let mut m = g.to_vec();
                    m.push(b'\n');
                    m
                }
            }
        };
        msgs.push(m);
    }
    let longest = msgs.iter().map(|m| m.len()).max().unwrap_or(1);
    let fitting: Vec<usize> = WITH_N_VALUES.iter().copied().filter(|n| *n >= longest).collect();
    let n = match t.weighted(&[2, 3]) {
        0 => fitting[0],
        _ => fitting[t.below(fitting.len().min(12))],
    };
    let stream: Vec<u8> = msgs.concat();
    let reads = gen_reads(&mut t, stream.len(), n);
    let np = t.below(4);
    let pauses: Vec<u8> = (0..np).map(|_| t.below(3) as u8).collect();
    let o = observe(&env, n, &pauses, &stream, &reads);
    let refs: Vec<&[u8]> = msgs.iter().map(|m| m.as_slice()).collect();
    let r = with_n!(n, run_seq_n, Some(&env), &pauses, &refs);
    let ro = vrun::observation(&r.log, &r.out);
    if o != ro {
        let shown: Vec<i64> = reads.iter().map(|r| if *r == usize::MAX { -1 } else { *r as i64 }).collect();
        return Err(format!(
            "process::<{}> (reads {:?}) vs run message-by-message on '{}': {}",
            n,
            shown,
            esc(&stream),
            diff(&o, &ro)
        ));
    }
    if interesting(&o) {
        let faulty = o.0.iter().any(|e| matches!(e, Ev::Error { .. }));
        if faulty {
            st.class("with a faulty message");
        }
        if n == longest {
            st.class("N equals the longest message");
        }
        if msgs.len() > 1 {
            st.nontrivial(&(&stream, n, &reads));
        }
    }
    st.sample(|| json!({ "messages": msgs.iter().map(|m| esc(m)).collect::<Vec<_>>(), "N": n }));
    Ok(())
}

fn main() {
    let mut h = Harness::from_args("C07");
    let spec = vrun::spec_of(fixture::mini::SPEC_JSON);
    let model = Model::build(&spec).expect("mini fixture is collision-free");
    let ix = Index::new(&model, true);
    h.assume("observation = handler invocations with arguments and reported errors in order, plus the concatenation of all bytes written to the transport");
    h.assume("for the run-vs-process clause messages are newline-terminated, contain no other newline and leave no string or block open (faulty messages there contain no quote or '#')");

    let max_len = h.tier.pick(11, 13);
    let cases = h.tier.pick(3_200, 48_000);
    h.check(
        "c07.compositions",
        &format!("proptest tapes -> short streams (<= {} bytes; 1-3 tiny messages incl. faulty ones, payload newlines, unterminated tails) x N mostly in 1..=16; for each stream ALL 2^(L-1) compositions of its length into read sizes are run and compared with the single-byte schedule; non-trivial = stream that causes at least one handler or error event (distinct by stream and N)", max_len),
        false,
        |h, st| h.tape_search("c07.compositions", cases, 96, st, |tape, st| compositions_prop(&model, &ix, tape, st, max_len)),
        |case| replay_tape(case, |tape, st| compositions_prop(&model, &ix, tape, st, 13)),
    );
    let cases = h.tier.pick(200_000, 3_000_000);
    h.check(
        "c07.random",
        "proptest tapes -> streams of 1-6 segments (valid, byte-mutated, garbage, random bytes; payload newlines; messages longer than N) x N from the instantiated set x 4 read schedules (single bytes, empty reads, as-much-as-fits reads, mixed) x Pending scripts on transport/handlers, each compared with the single-byte schedule without suspensions; non-trivial = events occur and the schedule has a boundary inside the stream or an empty read",
        false,
        |h, st| h.tape_search("c07.random", cases, 200, st, |tape, st| random_prop(&model, &ix, tape, st)),
        |case| replay_tape(case, |tape, st| random_prop(&model, &ix, tape, st)),
    );
    let cases = h.tier.pick(200_000, 3_000_000);
    h.check(
        "c07.vs_run",
        "proptest tapes -> 1-6 complete messages (valid, byte-mutated, garbage), N >= longest message (often exactly), random schedule and Pending script: process must equal handing the messages one at a time to run on the same interface with a fresh heapless::Vec<u8,N>; non-trivial = >= 2 messages with events",
        false,
        |h, st| h.tape_search("c07.vs_run", cases, 200, st, |tape, st| vs_run_prop(&model, &ix, tape, st)),
        |case| replay_tape(case, |tape, st| vs_run_prop(&model, &ix, tape, st)),
    );
    h.check(
        "c07.fuzz_replay",
        "seed inputs of the fz_stream campaign and saved fuzzer findings under the C07 oracle (decoded schedule and Pending script vs single-byte reads)",
        true,
        |_h, st| {
            for seed in fixture::fuzzing::STREAM_SEEDS {
                st.eval();
                if let Err(msg) = vcore::runner::guarded(|| fixture::fuzzing::stream_case_for(seed, false, true).map(|_| ())) {
                    return Some(vcore::runner::Failure {
                        message: msg,
                        case: json!({ "hex": vcore::runner::hex(seed) }),
                    });
                }
                st.nontrivial(seed);
            }
            None
        },
        |case| fixture::fuzzing::stream_case_for(&vcore::runner::unhex(case["hex"].as_str().unwrap_or("")), false, true).map(|_| ()),
    );
    fixture::fuzzing::campaign_part(&mut h, "C07", "c07.fuzz_campaign");
    h.finish();
}

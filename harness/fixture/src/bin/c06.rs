//! C06 - a faulty message is reported once and never affects later messages (fixture part).

use fixture::{with_fn, WITH_FN_VALUES};
use vcore::gen::{Env, Index};
use vcore::runner::{replay_tape, Harness};
use vcore::spec::Model;
use vrun::props::{c06_prop, Exec};
use vrun::ProcOut;

type Fx = fixture::fx::I<8>;

fn proc_fx<const N: usize>(env: Option<&Env>, pauses: &[u8], stream: &[u8], reads: &[usize]) -> ProcOut {
    vrun::process::<Fx, N>(env, pauses, stream, reads, None)
}

fn main() {
    let mut h = Harness::from_args("C06");
    let spec = vrun::spec_of(fixture::fx::SPEC_JSON);
    let model = Model::build(&spec).expect("fx fixture is collision-free");
    let ix = Index::new(&model, true);
    let run_rec = |env: &Env, pauses: &[u8], input: &[u8]| vrun::run_rec::<Fx>(Some(env), pauses, input);
    let process = |env: &Env, n: usize, pauses: &[u8], stream: &[u8], reads: &[usize]| {
        with_fn!(n, proc_fx, Some(env), pauses, stream, reads)
    };
    let ex = Exec {
        run_rec: &run_rec,
        process: &process,
        sizes: WITH_FN_VALUES,
        qcap: 8,
    };
    h.assume("messages are complete: the only newline is the terminator, faulty units contain no quote and no '#'");
    h.assume("the unit following a syntactically broken unit is addressed absolutely or is a common command (the path after a syntax error is unspecified)");
    let cases = h.tier.pick(300_000, 3_000_000);
    h.check(
        "c06.fixture",
        "proptest tapes -> 2-6 complete messages over the fx fixture, each faulty with p=0.4: exactly one faulty unit (syntax error from a catalogue of 27, undefined mnemonic, query/command kind mismatch, parameter count, wrong data kind, out-of-range integer, non-boolean, handler-raised custom or standard error) at a uniform position among 1-4 units, the other units valid and path-dependent; the buffer goes through run (recording writer) and through process (random schedule, N >= need): events before the fault as predicted, exactly one error (the handler's own number and text verbatim for handler errors), faulty handler not invoked unless it is the one failing, rest of that message all-or-nothing, every later message exactly as predicted in isolation; non-trivial = fault not in the last unit followed by another message, or two faulty messages in a row",
        false,
        |h, st| h.tape_search("c06.fixture", cases, 300, st, |tape, st| c06_prop(&model, &ix, &ex, tape, st)),
        |case| replay_tape(case, |tape, st| c06_prop(&model, &ix, &ex, tape, st)),
    );
    h.finish();
}

//! C10 - process answers before it reads on, and ends only on a transport error.

use fixture::{with_fn, WITH_FN_VALUES};
use serde_json::json;
use vcore::ast::{show_log, Ev, Message};
use vcore::gen::{self, Env, GenCfg, Index, PEv};
use vcore::runner::{esc, replay_tape, Harness, Stats};
use vcore::spec::{Header, Model};
use vcore::tape::Tape;
use vrun::props::{gen_reads, show_reads};
use vrun::{ProcOut, EOF_TOKEN, FAIL_BASE};

type Fx = fixture::fx::I<8>;

fn proc_fx<const N: usize>(
    env: Option<&Env>, pauses: &[u8], stream: &[u8], reads: &[usize], fail_at: Option<usize>,
) -> ProcOut {
    vrun::process::<Fx, N>(env, pauses, stream, reads, fail_at)
}

fn adapter_events(log: &[Ev]) -> Vec<Ev> {
    log.iter()
        .filter(|e| matches!(e, Ev::ARead { .. } | Ev::AWrite(_) | Ev::AFlush | Ev::AFail { .. }))
        .cloned()
        .collect()
}

fn prop(model: &Model, ix: &Index, tape: &[u32], st: &mut Stats) -> Result<(), String> {
    let mut t = Tape::new(tape);
    let env = Env::new(model, 8);
    let mut cfg = GenCfg::default();
    cfg.max_units = 3;
    cfg.lit.max_payload = 3;
    // user declarations only: responses are then predictable without knowing error numbers
    cfg.only = Some((0..model.spec.decls.len()).collect());
    cfg.p_empty_message = 1;
    let n_msgs = t.range(1, 8);
    let mut msgs: Vec<Message> = Vec::new();
    for _ in 0..n_msgs {
        let mut m = gen::gen_message(&mut t, ix, &cfg);
        if t.chance(1, 4) && !m.units.is_empty() {
            // a faulty unit at the end of the message (nothing after it, so nothing is ambiguous)
            let mut u = vcore::ast::Unit::new(
                Header {
                    absolute: true,
                    mnems: vec![["NOPE", "A", "SYST"][t.below(3)].to_string()],
                    query: t.chance(1, 2),
                },
                vec![],
            );
            if t.chance(1, 3) {
                u.raw = Some(b"@".to_vec());
            }
            if model.resolve(&[], &u.header).target.is_none() || u.raw.is_some() || !u.args.is_empty() {
                m.units.push(u);
                m.trailing_semicolon = false;
            }
        }
        msgs.push(m);
    }
    // predicted response bytes per message
    let mut per_msg: Vec<Vec<u8>> = Vec::new();
    let mut ends: Vec<usize> = Vec::new();
    let mut stream: Vec<u8> = Vec::new();
    for m in &msgs {
        let mut kinds = vec![gen::UnitKind::Normal; m.units.len()];
        if let Some(last) = m.units.last() {
            if last.raw.is_some() {
                let k = kinds.len() - 1;
                kinds[k] = gen::UnitKind::Syntax;
            }
        }
        let pred = gen::predict(model, std::slice::from_ref(m), Some(&[kinds]), &env);
        let mut bytes = Vec::new();
        for p in &pred {
            if let PEv::Response(b) = p {
                bytes.extend_from_slice(b);
            }
        }
        per_msg.push(bytes);
        m.render(&mut stream);
        ends.push(stream.len());
    }
    let need = msgs
        .iter()
        .map(|m| m.rendered().len())
        .max()
        .unwrap_or(1)
        .max(per_msg.iter().map(|b| b.len()).max().unwrap_or(0));
    let fitting: Vec<usize> = WITH_FN_VALUES.iter().copied().filter(|n| *n >= need).collect();
    if fitting.is_empty() {
        return Ok(());
    }
    let n = fitting[t.below(fitting.len().min(4))];
    let reads = gen_reads(&mut t, stream.len(), n);
    let np = t.below(4);
    let pauses: Vec<u8> = (0..np).map(|_| t.below(3) as u8).collect();

    // fault-free trace
    let base = with_fn!(n, proc_fx, Some(&env), &pauses, &stream, &reads, None);
    let ctx = |e: String| {
        format!(
            "{} [process::<{}> stream '{}' reads {:?} log: {}]",
            e,
            n,
            esc(&stream),
            show_reads(&reads),
            show_log(&base.log)
        )
    };
    if base.result != Err(EOF_TOKEN) {
        return Err(ctx(format!("process ended with {:?} instead of the transport's end-of-stream error", base.result)));
    }
    if base.calls_after_error != 0 {
        return Err(ctx("the transport was called again after it had returned an error".into()));
    }
    let trace = adapter_events(&base.log);
    let mut delivered = 0usize;
    let mut written: Vec<u8> = Vec::new();
    let mut dirty = false; // bytes written since the last flush
    for e in &trace {
        match e {
            Ev::ARead { .. } | Ev::AFail { .. } => {
                // everything delivered completely by earlier reads must have been answered and flushed
                let mut expected: Vec<u8> = Vec::new();
                for (i, end) in ends.iter().enumerate() {
                    if *end <= delivered {
                        expected.extend_from_slice(&per_msg[i]);
                    }
                }
                if written != expected {
                    return Err(ctx(format!(
                        "when the transport was asked for more input after {} bytes, '{}' had been written but the completely delivered messages call for '{}'",
                        delivered,
                        esc(&written),
                        esc(&expected)
                    )));
                }
                if dirty {
                    return Err(ctx(format!("a response was written but not flushed before the next read (after {} bytes)", delivered)));
                }
                if let Ev::ARead { got, .. } = e {
                    delivered += got;
                }
            }
            Ev::AWrite(b) => {
                written.extend_from_slice(b);
                if !b.is_empty() {
                    dirty = true;
                }
            }
            // (a flush with nothing written, or an empty write, writes nothing: not a violation)
            Ev::AFlush => dirty = false,
            _ => {}
        }
    }
    // a transport error at every position of the call sequence
    let total_calls = base.calls;
    for k in 0..total_calls {
        let po = with_fn!(n, proc_fx, Some(&env), &pauses, &stream, &reads, Some(k));
        st.evals_add(1);
        let tr = adapter_events(&po.log);
        let fctx = |e: String| ctx(format!("transport error injected at call {}: {} [faulty log: {}]", k, e, show_log(&po.log)));
        if po.result != Err(FAIL_BASE + k as u32) {
            return Err(fctx(format!("process returned {:?} instead of the injected error {}", po.result, FAIL_BASE + k as u32)));
        }
        if po.calls != k + 1 || po.calls_after_error != 0 {
            return Err(fctx(format!("{} transport calls were made after the failing one", po.calls - (k + 1))));
        }
        // same calls as the fault-free run up to the failing one
        if tr.len() != k + 1 || tr[..k] != trace[..k] {
            return Err(fctx("the calls before the failing one differ from the fault-free run".into()));
        }
        let failing_kind = &trace[k];
        let after_answer = k > 0 && matches!(trace[k - 1], Ev::AFlush);
        match failing_kind {
            Ev::AWrite(_) | Ev::AFlush => {
                st.class("error injected on write/flush");
                st.nontrivial(&(&stream, &reads, k));
            }
            _ if after_answer => {
                st.class("error injected on the read after an answer");
                st.nontrivial(&(&stream, &reads, k));
            }
            _ => st.class("error injected on another read"),
        }
    }
    st.sample(|| json!({ "stream": esc(&stream), "N": n, "transport_calls": total_calls }));
    Ok(())
}

fn main() {
    let mut h = Harness::from_args("C10");
    let spec = vrun::spec_of(fixture::fx::SPEC_JSON);
    let model = Model::build(&spec).expect("fx fixture is collision-free");
    let ix = Index::new(&model, true);
    h.assume("N is large enough for every message and every response of the stream; messages contain no payload newlines; faulty units are last in their message");
    h.assume("finite streams end with an end-of-stream error from the transport, so 'never returns Ok' is decided for finite generated streams only");
    let cases = h.tier.pick(12_000, 400_000);
    h.check(
        "c10.answers_and_faults",
        "proptest tapes -> streams of 1-8 messages (queries, commands, trailing faulty units) over the fx fixture under random read schedules (several messages per read, single bytes, empty reads) and Pending scripts: in the fault-free run, at every read call the bytes written so far must equal the predicted responses of exactly the messages completely delivered by earlier reads, flushed, result = the transport's end-of-stream error; then the run is repeated with a transport error injected at EVERY position of the read/write/flush call sequence: same calls before it, the error returned unchanged, no call after it; non-trivial = error injected on a write, a flush, or the read following an answer",
        false,
        |h, st| h.tape_search("c10.answers_and_faults", cases, 240, st, |tape, st| prop(&model, &ix, tape, st)),
        |case| replay_tape(case, |tape, st| prop(&model, &ix, tape, st)),
    );
    h.finish();
}

//! C10 - process answers before it reads on, and ends only on a transport error.

use fixture::{with_fn, WITH_FN_VALUES};
use serde_json::json;
use vcore::ast::{show_log, Ev, Message};
use vcore::gen::{self, Env, GenCfg, Index, PEv};
use vcore::runner::{esc, replay_tape, Harness, Stats};
use vcore::spec::{Header, Model};
use vcore::tape::Tape;
use vrun::props::{gen_reads, show_reads};
use vrun::{ProcOut, EOF_TOKEN, FAIL_BASE};

type Fx = fixture::fx::I<8>;

fn proc_fx<const N: usize>(
    env: Option<&Env>, pauses: &[u8], stream: &[u8], reads: &[usize], fail_at: Option<usize>,
) -> ProcOut {
    vrun::process::<Fx, N>(env, pauses, stream, reads, fail_at)
}

fn adapter_events(log: &[Ev]) -> Vec<Ev> {
    log.iter()
        .filter(|e| matches!(e, Ev::ARead { .. } | Ev::AWrite(_) | Ev::AFlush | Ev::AFail { .. }))
        .cloned()
        .collect()
}

fn prop(model: &Model, ix: &Index, tape: &[u32], st: &mut Stats) -> Result<(), String> {
    let mut t = Tape::new(tape);
    let mut env = Env::new(model, 8);
    let mut cfg = GenCfg::default();
    cfg.max_units = 3;
    cfg.lit.max_payload = 3;
    // user declarations only: responses are then predictable without knowing error numbers
    cfg.only = Some((0..model.spec.decls.len()).collect());
    cfg.p_empty_message = 1;
    // newlines inside string/block payloads: the message is then executed piecewise
    cfg.lit.newlines = t.chance(1, 3);
    let n_msgs = t.range(1, 8);
    let mut msgs: Vec<Message> = Vec::new();
    let mut faulty_mid: Vec<usize> = Vec::new();
    // at most one query whose handler fails in this case (never used by the valid units)
    let failing_decl: Option<usize> = if t.chance(1, 2) {
        let queries: Vec<usize> = (0..model.spec.decls.len()).filter(|i| model.spec.decls[*i].is_query()).collect();
        let id = queries[t.below(queries.len())];
        env.fail[id] = Some(vcore::gen::FailSpec::Custom(-(t.below(300) as i16) - 1, t.below(8)));
        cfg.avoid = vec![id];
        Some(id)
    }
    else {
        None
    };
    for _ in 0..n_msgs {
        let mut m = gen::gen_message(&mut t, ix, &cfg);
        if t.chance(1, 4) && !m.units.is_empty() {
            // a faulty unit at the end of the message (nothing after it, so nothing is ambiguous)
            let mut u = vcore::ast::Unit::new(
                Header {
                    absolute: true,
                    mnems: vec![["NOPE", "A", "SYST"][t.below(3)].to_string()],
                    query: t.chance(1, 2),
                },
                vec![],
            );
            if t.chance(1, 3) {
                u.raw = Some(b"@".to_vec());
            }
            // ... or a QUERY that fails: a surplus parameter, a parameter of the wrong kind, or a
            // handler that returns an error - nothing at all may be written for it
            let failing_query = t.chance(1, 3);
            if failing_query {
                let queries: Vec<usize> = (0..model.spec.decls.len())
                    .filter(|i| model.spec.decls[*i].is_query() && Some(*i) != failing_decl)
                    .collect();
                // either the query whose handler fails, or a healthy query with a surplus parameter
                let by_handler = failing_decl.is_some() && t.chance(1, 2);
                let id = if by_handler { failing_decl.unwrap() } else { queries[t.below(queries.len())] };
                let d = &model.spec.decls[id];
                let (nodes, _) = vcore::spec::parse_cmd(&d.cmd);
                u = vcore::ast::Unit::new(
                    Header {
                        absolute: !d.cmd.starts_with('*'),
                        mnems: nodes.iter().map(|n| n.long()).collect(),
                        query: true,
                    },
                    gen::gen_args(&mut t, &d.params, &Default::default()),
                );
                if !by_handler {
                    u.args.push(vcore::ast::Lit::Dec("1".into()));
                }
            }
            if failing_query || model.resolve(&[], &u.header).target.is_none() || u.raw.is_some() || !u.args.is_empty() {
                m.units.push(u);
                m.trailing_semicolon = false;
            }
        }
        // or a faulty unit in front of units that cannot answer (commands only), so that whether the
        // rest of the message is executed or dropped makes no difference to the transport
        else if t.chance(1, 5) && !m.units.is_empty() {
            let first_ok = (0..m.units.len()).rev().take_while(|i| !m.units[*i].header.query).last();
            // (not in front of a payload that contains a newline: how much of a faulty message with a
            // newline inside a string or block is discarded is outside the statements, cf. C06)
            let newline_behind = |from: usize| {
                m.units[from..].iter().any(|u| u.args.iter().any(|a| a.payload().map(|p| p.contains(&b'\n')).unwrap_or(false)))
            };
            let first_ok = first_ok.filter(|lo| !newline_behind(*lo));
            if let Some(lo) = first_ok {
                let pos = t.range(lo, m.units.len() - 1);
                let mut u = vcore::ast::Unit::new(
                    Header {
                        absolute: true,
                        mnems: vec!["NOPE".to_string()],
                        query: false,
                    },
                    vec![],
                );
                if t.chance(1, 2) {
                    u.raw = Some(b"@".to_vec());
                }
                m.units.insert(pos, u);
                faulty_mid.push(msgs.len());
            }
        }
        msgs.push(m);
    }
    // predicted response bytes per message and per unit, and the offsets at which units/messages end
    let mut per_msg: Vec<Vec<u8>> = Vec::new();
    let mut per_unit: Vec<Vec<Vec<u8>>> = Vec::new();
    let mut unit_ends: Vec<Vec<usize>> = Vec::new();
    let mut starts: Vec<usize> = Vec::new();
    let mut ends: Vec<usize> = Vec::new();
    let mut stream: Vec<u8> = Vec::new();
    let mut expected_seq: Vec<(vcore::spec::RetTy, vcore::rval::RVal, usize, usize)> = Vec::new();
    let mut msgs_done = 0usize;
    for m in &msgs {
        let mut pending_unit_idx: Vec<usize> = Vec::new();
        let kinds: Vec<gen::UnitKind> =
            m.units.iter().map(|u| if u.raw.is_some() { gen::UnitKind::Syntax } else { gen::UnitKind::Normal }).collect();
        let mut bytes = Vec::new();
        let mut units_resp: Vec<Vec<u8>> = Vec::new();
        let mut uends: Vec<usize> = Vec::new();
        let mut ctx: Vec<String> = Vec::new();
        let mut dead = false;
        let base = stream.len();
        let mut off = base;
        for (ui, u) in m.units.iter().enumerate() {
            // response of this unit alone, predicted in its path context
            let single = Message::new(vec![u.clone()]);
            let mut r = Vec::new();
            let mut typed: Option<(vcore::spec::RetTy, vcore::rval::RVal)> = None;
            if dead {
                // behind a faulty unit: commands only, no answer whether executed or not
            }
            else if matches!(kinds[ui], gen::UnitKind::Syntax) {
                dead = true;
            }
            else {
                let res = model.resolve(&ctx, &u.header);
                if res.target.is_none() {
                    dead = true;
                }
                if let Some(vcore::spec::Target::User(id)) = res.target {
                    let d = &model.spec.decls[id];
                    let ok = d.params.len() == u.args.len()
                        && u.args.iter().zip(&d.params).all(|(l, ty)| matches!(vcore::lits::expect(l, *ty), vcore::lits::Expect::Value(_)));
                    if ok && d.is_query() && env.fail[id].is_none() {
                        vcore::rval::encode(&d.ret, &env.rets[id], &mut r);
                        r.push(b'\n');
                        typed = Some((d.ret.clone(), env.rets[id].clone()));
                    }
                }
                if let Some(c) = res.new_ctx {
                    ctx = c;
                }
            }
            let _ = single;
            bytes.extend_from_slice(&r);
            units_resp.push(r);
            if let Some(tv) = typed {
                // (type, value, message index, offset at which the unit is completely delivered)
                expected_seq.push((tv.0, tv.1, msgs_done, 0usize));
                pending_unit_idx.push(ui);
            }
            let mut tmp = Vec::new();
            u.render(&mut tmp);
            off += tmp.len() + 1; // the unit and its ';' or (for the last unit) the start of the tail
            uends.push(off);
        }
        let _ = &pending_unit_idx;
        // cross-check with the message-level prediction
        let pred = gen::predict(model, std::slice::from_ref(m), Some(&[kinds]), &env);
        let mut bytes2 = Vec::new();
        for p in &pred {
            if let PEv::Response { canonical, .. } = p {
                bytes2.extend_from_slice(canonical);
            }
        }
        if bytes != bytes2 {
            return Err(format!("harness: per-unit and per-message predictions differ for '{}'", esc(&m.rendered())));
        }
        let _ = &faulty_mid;
        per_msg.push(bytes);
        per_unit.push(units_resp);
        starts.push(stream.len());
        m.render(&mut stream);
        let end = stream.len();
        // unit ends can never exceed the message end
        let ue: Vec<usize> = uends.into_iter().map(|e| e.min(end)).collect();
        {
            let mut k = 0;
            for e in expected_seq.iter_mut().filter(|e| e.2 == msgs_done) {
                e.3 = ue[pending_unit_idx[k]];
                k += 1;
            }
        }
        unit_ends.push(ue);
        ends.push(end);
        msgs_done += 1;
    }
    let need = msgs
        .iter()
        .map(|m| m.rendered().len())
        .max()
        .unwrap_or(1)
        .max(per_msg.iter().map(|b| b.len()).max().unwrap_or(0));
    let fitting: Vec<usize> = WITH_FN_VALUES.iter().copied().filter(|n| *n >= need).collect();
    if fitting.is_empty() {
        return Ok(());
    }
    // mostly the tightest buffer that holds every message and every message's answers
    let n = if t.chance(2, 3) { fitting[0] } else { fitting[t.below(fitting.len().min(4))] };
    let reads = gen_reads(&mut t, stream.len(), n);
    let np = t.below(4);
    let pauses: Vec<u8> = (0..np).map(|_| t.below(3) as u8).collect();

    // fault-free trace
    let base = with_fn!(n, proc_fx, Some(&env), &pauses, &stream, &reads, None);
    let ctx = |e: String| {
        format!(
            "{} [process::<{}> stream '{}' reads {:?} log: {}]",
            e,
            n,
            esc(&stream),
            show_reads(&reads),
            show_log(&base.log)
        )
    };
    if base.result != Err(EOF_TOKEN) {
        return Err(ctx(format!("process ended with {:?} instead of the transport's end-of-stream error", base.result)));
    }
    if base.calls_after_error != 0 {
        return Err(ctx("the transport was called again after it had returned an error".into()));
    }
    let trace = adapter_events(&base.log);
    let mut delivered = 0usize;
    let mut written: Vec<u8> = Vec::new();
    let mut dirty = false; // bytes written since the last flush
    for e in &trace {
        match e {
            Ev::ARead { .. } | Ev::AFail { .. } => {
                // everything delivered completely by earlier reads must have been answered and flushed;
                // of the message in progress (possible with payload newlines) the answers of units that
                // are already delivered may have been written too - nothing else, ever
                // `written` must consist of exactly the first k expected answers (canonical or any
                // other encoding that decodes to the value), with  must <= k <= may
                let typed: Vec<(vcore::spec::RetTy, vcore::rval::RVal)> =
                    expected_seq.iter().map(|e| (e.0.clone(), e.1.clone())).collect();
                let must = expected_seq.iter().filter(|e| ends[e.2] <= delivered).count();
                let may = expected_seq.iter().filter(|e| ends[e.2] <= delivered || (starts[e.2] < delivered && e.3 <= delivered)).count();
                match vcore::decode::match_response_sequence(&typed, &written) {
                    Ok(k) if k >= must && k <= may => {}
                    Ok(k) => {
                        return Err(ctx(format!(
                            "when the transport was asked for more input after {} bytes, {} answers had been written ('{}') but the completely delivered messages call for {} (at most {} counting delivered units of the message in progress)",
                            delivered,
                            k,
                            esc(&written),
                            must,
                            may
                        )));
                    }
                    Err(e) => {
                        return Err(ctx(format!(
                            "after {} bytes of input the transport had received '{}', which is not a sequence of the expected answers: {}",
                            delivered,
                            esc(&written),
                            e
                        )));
                    }
                }
                if dirty {
                    return Err(ctx(format!("a response was written but not flushed before the next read (after {} bytes)", delivered)));
                }
                if let Ev::ARead { got, .. } = e {
                    delivered += got;
                }
            }
            Ev::AWrite(b) => {
                written.extend_from_slice(b);
                if !b.is_empty() {
                    dirty = true;
                }
            }
            // (a flush with nothing written, or an empty write, writes nothing: not a violation)
            Ev::AFlush => dirty = false,
            _ => {}
        }
    }
    // a transport error at every position of the call sequence
    let total_calls = base.calls;
    for k in 0..total_calls {
        let po = with_fn!(n, proc_fx, Some(&env), &pauses, &stream, &reads, Some(k));
        st.evals_add(1);
        let tr = adapter_events(&po.log);
        let fctx = |e: String| ctx(format!("transport error injected at call {}: {} [faulty log: {}]", k, e, show_log(&po.log)));
        if po.result != Err(FAIL_BASE + k as u32) {
            return Err(fctx(format!("process returned {:?} instead of the injected error {}", po.result, FAIL_BASE + k as u32)));
        }
        if po.calls != k + 1 || po.calls_after_error != 0 {
            return Err(fctx(format!("{} transport calls were made after the failing one", po.calls - (k + 1))));
        }
        // same calls as the fault-free run up to the failing one
        if tr.len() != k + 1 || tr[..k] != trace[..k] {
            return Err(fctx("the calls before the failing one differ from the fault-free run".into()));
        }
        let failing_kind = &trace[k];
        let after_answer = k > 0 && matches!(trace[k - 1], Ev::AFlush);
        match failing_kind {
            Ev::AWrite(_) | Ev::AFlush => {
                st.class("error injected on write/flush");
                st.nontrivial(&(&stream, &reads, k));
            }
            _ if after_answer => {
                st.class("error injected on the read after an answer");
                st.nontrivial(&(&stream, &reads, k));
            }
            _ => st.class("error injected on another read"),
        }
    }
    st.sample(|| json!({ "stream": esc(&stream), "N": n, "transport_calls": total_calls }));
    Ok(())
}

/// Two answers in one message of which only the first fits the response buffer: the first must still
/// be written and flushed before the transport is asked for more input.
fn partial_prop(model: &Model, tape: &[u32], st: &mut Stats) -> Result<(), String> {
    let mut t = Tape::new(tape);
    let mut env = Env::new(model, 8);
    let id = |cmd: &str| model.spec.decls.iter().position(|d| d.cmd == cmd).expect("fixture declaration");
    // the second answer is a string or (formatted through write_fmt) a long integer
    let second_is_int = t.chance(1, 2);
    let (q1, q2) = (id("*IDN?"), if second_is_int { id("SYSTem:A?") } else { id("MEASure:TEMPerature?") });
    let n = [24usize, 32, 48, 64][t.below(4)];
    // first answer: "<l1 letters>"\n fits; second pushes the total beyond N
    let (l1, l2) = if second_is_int {
        // 19 digits (+ sign) + newline behind a first answer that leaves less room than that
        let l1 = t.range(n.saturating_sub(3 + 19), n - 4);
        (l1, 17)
    }
    else {
        let l1 = t.range(0, n - 4);
        let l2_min = (n + 1).saturating_sub(l1 + 3 + 3);
        (l1, t.range(l2_min.min(60), 60))
    };
    let first_len = l1 + 3;
    if first_len + l2 + 3 <= n {
        return Ok(());
    }
    let text = |t: &mut Tape, n: usize| -> String { (0..n).map(|_| b"abcXYZ019 ,;"[t.below(12)] as char).collect() };
    env.rets[q1] = vcore::rval::RVal::Str(text(&mut t, l1));
    env.rets[q2] = if second_is_int {
        vcore::rval::RVal::Int(if t.chance(1, 2) { i64::MIN as i128 } else { i64::MAX as i128 - t.below(1000) as i128 })
    }
    else {
        vcore::rval::RVal::Str(text(&mut t, l2))
    };
    let swap = t.chance(1, 3);
    let stream: Vec<u8> = if second_is_int {
        if swap { b"*IDN?;SYST:A?\nA 1\n".to_vec() } else { b"*IDN?;:SYSTEM:A?\n*RST\n".to_vec() }
    }
    else if swap {
        b"*IDN?;MEAS:TEMP?\nA 1\n".to_vec()
    }
    else {
        b"*IDN?;:MEASURE:TEMPERATURE?\n*RST\n".to_vec()
    };
    if stream.iter().position(|b| *b == b'\n').unwrap() + 1 > n {
        return Ok(());
    }
    let reads = gen_reads(&mut t, stream.len(), n);
    let po = with_fn!(n, proc_fx, Some(&env), &[], &stream, &reads, None);
    let first_msg_end = stream.iter().position(|b| *b == b'\n').unwrap() + 1;
    let typed = [(model.spec.decls[q1].ret.clone(), env.rets[q1].clone())];
    let mut delivered = 0usize;
    let mut written: Vec<u8> = Vec::new();
    let mut dirty = false;
    for e in adapter_events(&po.log) {
        match e {
            Ev::ARead { got, .. } => {
                if delivered >= first_msg_end {
                    // the first message is completely delivered: its first answer must be out
                    let ok = vcore::decode::decode_prefix(&typed[0].0, &typed[0].1, &written)
                        .map(|k| written.get(k) == Some(&b'\n'))
                        .unwrap_or(false);
                    if !ok || dirty {
                        return Err(format!(
                            "process::<{}> fed '{}' (reads {:?}): the first answer fits the buffer but '{}' had been written{} when the transport was asked for more input [log: {}]",
                            n,
                            esc(&stream),
                            show_reads(&reads),
                            esc(&written),
                            if dirty { " (unflushed)" } else { "" },
                            show_log(&po.log)
                        ));
                    }
                }
                delivered += got;
            }
            Ev::AWrite(b) => {
                written.extend_from_slice(&b);
                dirty = true;
            }
            Ev::AFlush => dirty = false,
            _ => {}
        }
    }
    st.class(&format!("N {}", n));
    st.nontrivial(&(&stream, n, l1, l2, &reads));
    st.sample(|| json!({ "stream": esc(&stream), "N": n, "first_answer_len": first_len, "second_answer_len": l2 + 3 }));
    Ok(())
}

fn main() {
    let mut h = Harness::from_args("C10");
    let spec = vrun::spec_of(fixture::fx::SPEC_JSON);
    let model = Model::build(&spec).expect("fx fixture is collision-free");
    let ix = Index::new(&model, true);
    h.assume("N is large enough for every message and for all answers of any one message (mostly the tightest instantiated size); payload newlines occur in a third of the streams; faulty units are last in their message");
    h.assume("finite streams end with an end-of-stream error from the transport, so 'never returns Ok' is decided for finite generated streams only");
    let cases = h.tier.pick(30_000, 2_000_000);
    h.check(
        "c10.answers_and_faults",
        "proptest tapes -> streams of 1-8 messages (queries, commands, trailing faulty units) over the fx fixture under random read schedules (several messages per read, single bytes, empty reads) and Pending scripts: in the fault-free run, at every read call the bytes written so far must equal the predicted responses of exactly the messages completely delivered by earlier reads, flushed, result = the transport's end-of-stream error; then the run is repeated with a transport error injected at EVERY position of the read/write/flush call sequence: same calls before it, the error returned unchanged, no call after it; non-trivial = error injected on a write, a flush, or the read following an answer",
        false,
        |h, st| h.tape_search("c10.answers_and_faults", cases, 240, st, |tape, st| prop(&model, &ix, tape, st)),
        |case| replay_tape(case, |tape, st| prop(&model, &ix, tape, st)),
    );
    let cases = h.tier.pick(40_000, 1_000_000);
    h.check(
        "c10.first_answer_when_the_second_does_not_fit",
        "proptest tapes -> one message with two queries (string, then string or 19-digit integer) whose answers together exceed the N-byte response buffer while the first fits (N in 24,32,48,64), followed by another message, random read schedule: when the transport is asked for input after the first message is completely delivered, the first answer (decoded) must have been written and flushed; non-trivial = every case",
        false,
        |h, st| h.tape_search("c10.first_answer_when_the_second_does_not_fit", cases, 120, st, |tape, st| partial_prop(&model, tape, st)),
        |case| replay_tape(case, |tape, st| partial_prop(&model, tape, st)),
    );
    h.finish();
}

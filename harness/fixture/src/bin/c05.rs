//! C05 - no input can crash or hang the interpreter.

use fixture::{with_cap, with_n, WITH_CAP_VALUES, WITH_N_VALUES};
use serde_json::{json, Value};
use vcore::ast::Ev;
use vcore::gen::{self, Env, GenCfg, Index};
use vcore::runner::{esc, hex, replay_tape, unhex, Harness, Stats};
use vcore::rval::{self, RVal};
use vcore::spec::{Model, RetTy};
use vcore::tape::Tape;
use vrun::{ProcOut, RunOut, EOF_TOKEN};
use fixture::streams::{gen_rval, gen_stream_case};

type Mini = fixture::mini::I<4>;

/// One representative per lexical class the grammar distinguishes.
const ALPHABET: &[u8] = b"AEH*:;, \n?#12'\".e+";

fn run_cap<const CAP: usize>(env: Option<&Env>, pauses: &[u8], input: &[u8]) -> RunOut {
    vrun::run_heapless::<Mini, CAP>(env, pauses, input)
}

fn proc_n<const N: usize>(env: Option<&Env>, pauses: &[u8], stream: &[u8], reads: &[usize]) -> ProcOut {
    vrun::process::<Mini, N>(env, pauses, stream, reads, None)
}

#[derive(Clone, Debug)]
enum Config {
    Run { cap: usize },
    Process { n: usize, read: usize },
}

fn all_configs() -> Vec<Config> {
    let mut v = Vec::new();
    for &cap in WITH_CAP_VALUES {
        v.push(Config::Run { cap });
    }
    for &n in WITH_N_VALUES {
        for read in [1usize, 2, 3, usize::MAX] {
            v.push(Config::Process { n, read });
        }
    }
    v
}

fn check_run(out: &RunOut) -> Result<(), String> {
    if !out.suffix_ok {
        return Err(format!("run returned a slice of {} bytes that is not a suffix of its input", out.rest));
    }
    Ok(())
}

fn check_proc(po: &ProcOut, stream_len: usize) -> Result<(), String> {
    if po.empty_dst_reads > 0 {
        return Err("process asked the transport to read into an empty buffer (it can never make progress)".into());
    }
    match po.result {
        Err(EOF_TOKEN) => {}
        other => return Err(format!("process ended with {:?} instead of the transport's end-of-stream error", other)),
    }
    if po.consumed != stream_len {
        return Err(format!("process stopped reading after {} of {} bytes", po.consumed, stream_len));
    }
    Ok(())
}

/// Executes one byte string under one configuration; returns the log for statistics.
fn exec(stream: &[u8], cfg: &Config, pauses: &[u8], reads: Option<&[usize]>) -> Result<Vec<Ev>, String> {
    match cfg {
        Config::Run { cap } => {
            let out = with_cap!(*cap, run_cap, None, pauses, stream);
            check_run(&out)?;
            Ok(out.log)
        }
        Config::Process { n, read } => {
            let default_reads: Vec<usize>;
            let reads = match reads {
                Some(r) => r,
                None => {
                    default_reads = if *read == usize::MAX { vec![] } else { vec![*read; stream.len() + 1] };
                    &default_reads
                }
            };
            let po = with_n!(*n, proc_n, None, pauses, stream, reads);
            check_proc(&po, stream.len())?;
            Ok(po.log)
        }
    }
}

fn index_to_string(mut idx: u64) -> Vec<u8> {
    let k = ALPHABET.len() as u64;
    let mut len = 0;
    let mut block = 1u64;
    while idx >= block {
        idx -= block;
        block *= k;
        len += 1;
    }
    let mut s = vec![0u8; len];
    for i in (0..len).rev() {
        s[i] = ALPHABET[(idx % k) as usize];
        idx /= k;
    }
    s
}

fn total_strings(max_len: u32) -> u64 {
    (0..=max_len).map(|l| (ALPHABET.len() as u64).pow(l)).sum()
}

fn interesting(log: &[Ev]) -> bool {
    log.iter().any(|e| matches!(e, Ev::Handler { .. } | Ev::Error { .. }))
}

fn config_json(c: &Config) -> Value {
    match c {
        Config::Run { cap } => json!({ "mode": "run", "cap": cap }),
        Config::Process { n, read } => json!({ "mode": "process", "n": n, "read": if *read == usize::MAX { 0 } else { *read } }),
    }
}

fn config_from_json(v: &Value) -> Config {
    if v["mode"] == "run" {
        Config::Run {
            cap: v["cap"].as_u64().unwrap_or(0) as usize,
        }
    }
    else {
        let r = v["read"].as_u64().unwrap_or(0) as usize;
        Config::Process {
            n: v["n"].as_u64().unwrap_or(1) as usize,
            read: if r == 0 { usize::MAX } else { r },
        }
    }
}

fn bytes_case(stream: &[u8], cfg: &Config) -> Value {
    json!({ "hex": hex(stream), "text": esc(stream), "config": config_json(cfg) })
}

fn replay_bytes(case: &Value) -> Result<(), String> {
    if let Some(idx) = case.get("index").and_then(|i| i.as_u64()) {
        // a watchdog hit of the exhaustive part names the string by its index: run it under every
        // configuration
        let s = index_to_string(idx);
        for cfg in all_configs() {
            exec(&s, &cfg, &[], None).map_err(|e| format!("{} [input '{}' config {}]", e, esc(&s), config_json(&cfg)))?;
        }
        return Ok(());
    }
    let stream = unhex(case["hex"].as_str().unwrap_or(""));
    let cfg = config_from_json(&case["config"]);
    let reads: Option<Vec<usize>> = case
        .get("reads")
        .and_then(|r| r.as_array())
        .map(|a| a.iter().map(|x| x.as_u64().unwrap_or(0) as usize).collect());
    let pauses: Vec<u8> = case
        .get("pauses")
        .and_then(|r| r.as_array())
        .map(|a| a.iter().map(|x| x.as_u64().unwrap_or(0) as u8).collect())
        .unwrap_or_default();
    exec(&stream, &cfg, &pauses, reads.as_deref()).map(|_| ())
}

// -------------------------------------------------------------------------------------------------
// random streams
// -------------------------------------------------------------------------------------------------

fn random_prop(model: &Model, ix: &Index, tape: &[u32], st: &mut Stats) -> Result<(), String> {
    let mut t = Tape::new(tape);
    let c = gen_stream_case(&mut t, model, ix, WITH_N_VALUES, WITH_CAP_VALUES);
    let out = with_cap!(c.cap, run_cap, Some(&c.env), &c.pauses, &c.stream);
    check_run(&out).map_err(|e| format!("{} [run cap={} input='{}']", e, c.cap, esc(&c.stream)))?;
    let po = with_n!(c.n, proc_n, Some(&c.env), &c.pauses, &c.stream, &c.reads);
    check_proc(&po, c.stream.len())
        .map_err(|e| format!("{} [process N={} reads={:?} stream='{}']", e, c.n, c.reads, esc(&c.stream)))?;
    let small_buffer = out.log.iter().any(|e| matches!(e, Ev::Error { num: -223 | -310, .. }));
    let tight = c.n < c.stream.len();
    if interesting(&po.log) || interesting(&out.log) {
        st.class("events");
        if small_buffer {
            st.class("response-did-not-fit");
        }
        if tight {
            st.class("stream-longer-than-N");
        }
        if small_buffer || tight || c.reads.iter().any(|r| *r < c.stream.len()) {
            st.nontrivial(&(&c.stream, c.n, c.cap, &c.reads));
        }
    }
    st.sample(|| json!({ "stream": esc(&c.stream), "N": c.n, "cap": c.cap, "reads": c.reads.iter().take(12).map(|r| if *r == usize::MAX { -1 } else { *r as i64 }).collect::<Vec<_>>() }));
    Ok(())
}

// -------------------------------------------------------------------------------------------------
// return values of every response type into buffers of every size
// -------------------------------------------------------------------------------------------------

type TyI = fixture::ty::I<4>;

fn run_cap_ty<const CAP: usize>(env: Option<&Env>, pauses: &[u8], input: &[u8]) -> RunOut {
    vrun::run_heapless::<TyI, CAP>(env, pauses, input)
}

const TY_CAPS: &[usize] = &[0, 1, 2, 7, 8, 16, 24, 31, 32, 33, 40, 64, 128, 400, 4096];

fn run_ty(cap: usize, env: &Env, input: &[u8]) -> RunOut {
    match cap {
        0 => run_cap_ty::<0>(Some(env), &[], input),
        1 => run_cap_ty::<1>(Some(env), &[], input),
        2 => run_cap_ty::<2>(Some(env), &[], input),
        7 => run_cap_ty::<7>(Some(env), &[], input),
        8 => run_cap_ty::<8>(Some(env), &[], input),
        16 => run_cap_ty::<16>(Some(env), &[], input),
        24 => run_cap_ty::<24>(Some(env), &[], input),
        31 => run_cap_ty::<31>(Some(env), &[], input),
        32 => run_cap_ty::<32>(Some(env), &[], input),
        33 => run_cap_ty::<33>(Some(env), &[], input),
        40 => run_cap_ty::<40>(Some(env), &[], input),
        64 => run_cap_ty::<64>(Some(env), &[], input),
        128 => run_cap_ty::<128>(Some(env), &[], input),
        400 => run_cap_ty::<400>(Some(env), &[], input),
        _ => run_cap_ty::<4096>(Some(env), &[], input),
    }
}

fn proc_ty(n: usize, env: &Env, stream: &[u8], reads: &[usize]) -> ProcOut {
    match n {
        24 => vrun::process::<TyI, 24>(Some(env), &[], stream, reads, None),
        64 => vrun::process::<TyI, 64>(Some(env), &[], stream, reads, None),
        400 => vrun::process::<TyI, 400>(Some(env), &[], stream, reads, None),
        _ => vrun::process::<TyI, 4096>(Some(env), &[], stream, reads, None),
    }
}

/// One or two queries of the `ty` fixture (every response type) whose handlers return generated
/// values - every float bit pattern class, extreme integers, long strings and blocks, composites -
/// into response buffers from 0 to 4096 bytes: never a panic; and whenever no error is reported,
/// the output is exactly the responses of the executed queries.
fn values_prop(model: &Model, queries: &[usize], tape: &[u32], st: &mut Stats) -> Result<(), String> {
    let mut t = Tape::new(tape);
    let mut env = Env::new(model, 4);
    let k = if t.chance(1, 4) { 2 } else { 1 };
    let mut msg = Vec::new();
    let mut ids = Vec::new();
    for i in 0..k {
        let id = queries[t.below(queries.len())];
        let d = &model.spec.decls[id];
        // (the same query twice shares one return value: the later one)
        env.rets[id] = vcore::vals::gen_value(&mut t, &d.ret);
        let (nodes, _) = vcore::spec::parse_cmd(&d.cmd);
        if i > 0 {
            msg.extend_from_slice(b";:");
        }
        msg.extend_from_slice(nodes.iter().map(|n| n.long()).collect::<Vec<_>>().join(":").as_bytes());
        msg.push(b'?');
        ids.push(id);
    }
    let typed: Vec<(RetTy, RVal)> = ids.iter().map(|&id| (model.spec.decls[id].ret.clone(), env.rets[id].clone())).collect();
    msg.push(b'\n');
    let cap = TY_CAPS[t.below(TY_CAPS.len())];
    let out = run_ty(cap, &env, &msg);
    check_run(&out).map_err(|e| format!("{} [run cap={} input='{}']", e, cap, esc(&msg)))?;
    let errors = out.log.iter().filter(|e| matches!(e, Ev::Error { .. })).count();
    let show = |v: &[(RetTy, RVal)]| v.iter().map(|(_, x)| format!("{:?}", x)).collect::<Vec<_>>().join(" ; ");
    if errors == 0 {
        if vcore::decode::match_response_sequence(&typed, &out.out) != Ok(k) {
            return Err(format!(
                "no error reported but the output '{}' (capacity {}) is not the {} response(s) to '{}' returning {}",
                esc(&out.out),
                cap,
                k,
                esc(&msg),
                show(&typed)
            ));
        }
        st.class("run: answered");
    }
    else {
        st.class("run: error reported");
        st.nontrivial(&(&msg, cap, 0u8));
    }
    let n = [24usize, 64, 400, 4096][t.below(4)];
    if n >= msg.len() {
        let reads: Vec<usize> = if t.chance(1, 2) { vec![] } else { vec![t.range(1, 9); msg.len() + 1] };
        let po = proc_ty(n, &env, &msg, &reads);
        check_proc(&po, msg.len()).map_err(|e| format!("{} [process N={} stream='{}']", e, n, esc(&msg)))?;
        let errors = po.log.iter().filter(|e| matches!(e, Ev::Error { .. })).count();
        let (_, written) = vrun::observation(&po.log, &[]);
        if errors == 0 {
            if vcore::decode::match_response_sequence(&typed, &written) != Ok(k) {
                return Err(format!(
                    "process::<{}>: no error reported but '{}' was written for '{}' returning {}",
                    n,
                    esc(&written),
                    esc(&msg),
                    show(&typed)
                ));
            }
            st.class("process: answered");
        }
        else {
            st.class("process: error reported");
            st.nontrivial(&(&msg, n, 1u8));
        }
    }
    for (r, v) in &typed {
        if vcore::vals::is_nontrivial(r, v) {
            st.nontrivial(&(&msg, format!("{:?}", v)));
        }
    }
    st.sample(|| json!({ "message": esc(&msg), "cap": cap, "N": n, "returns": show(&typed) }));
    Ok(())
}

// -------------------------------------------------------------------------------------------------
// responses that do not fit
// -------------------------------------------------------------------------------------------------

fn smallbuf_prop(model: &Model, tape: &[u32], st: &mut Stats) -> Result<(), String> {
    let mut t = Tape::new(tape);
    let queries: Vec<usize> = (0..model.spec.decls.len()).filter(|&i| model.spec.decls[i].is_query()).collect();
    let id = queries[t.below(queries.len())];
    let d = &model.spec.decls[id];
    let mut env = Env::new(model, 4);
    env.rets[id] = gen_rval(&mut t, &d.ret);
    let (nodes, _) = vcore::spec::parse_cmd(&d.cmd);
    let header: Vec<String> = nodes.iter().map(|n| n.long()).collect();
    let mut msg = header.join(":").into_bytes();
    msg.push(b'?');
    if !d.params.is_empty() {
        msg.push(b' ');
        let args = gen::gen_args(&mut t, &d.params, &Default::default());
        for (i, a) in args.iter().enumerate() {
            if i > 0 {
                msg.push(b',');
            }
            a.render(&mut msg);
        }
    }
    msg.push(b'\n');
    let mut expected = Vec::new();
    rval::encode(&d.ret, &env.rets[id], &mut expected).ok_or("no canonical encoding")?;
    expected.push(b'\n');
    let cap = WITH_CAP_VALUES[t.below(WITH_CAP_VALUES.len())];
    let out = with_cap!(cap, run_cap, Some(&env), &[], &msg);
    check_run(&out)?;
    let errors = out.log.iter().filter(|e| matches!(e, Ev::Error { .. })).count();
    if expected.len() > cap {
        st.class("run: response larger than the buffer");
        st.nontrivial(&(&msg, cap, &expected));
        if errors == 0 {
            return Err(format!(
                "response of {} bytes does not fit a {}-byte buffer but no error was reported [input='{}' output='{}']",
                expected.len(),
                cap,
                esc(&msg),
                esc(&out.out)
            ));
        }
    }
    else {
        st.class("run: response fits");
        // the canonical encoding fits. Either the answer arrives complete (canonical or any other
        // encoding that decodes to the value) and unreported, or - if the library uses a longer valid
        // encoding that does not fit - an error is reported; silence or garbage is never acceptable
        let typed = [(d.ret.clone(), env.rets[id].clone())];
        let decodes = vcore::decode::match_response_sequence(&typed, &out.out) == Ok(1);
        let tight = cap < expected.len() + 16;
        if !((errors == 0 && decodes) || (errors >= 1 && tight)) {
            return Err(format!(
                "response fits the {}-byte buffer but output is '{}' (expected '{}'), {} errors [input='{}']",
                cap,
                esc(&out.out),
                esc(&expected),
                errors,
                esc(&msg)
            ));
        }
    }
    // through process: the response buffer has the size of the command buffer
    let n = WITH_N_VALUES[t.below(WITH_N_VALUES.len())];
    if n >= msg.len() {
        let po = with_n!(n, proc_n, Some(&env), &[], &msg, &[]);
        check_proc(&po, msg.len())?;
        let errors = po.log.iter().filter(|e| matches!(e, Ev::Error { .. })).count();
        let (_, written) = vrun::observation(&po.log, &[]);
        if expected.len() > n {
            st.class("process: response larger than N");
            st.nontrivial(&(&msg, n, 1u8));
            if errors == 0 {
                return Err(format!(
                    "process::<{}>: response of {} bytes cannot fit but no error was reported [stream='{}' log: {}]",
                    n,
                    expected.len(),
                    esc(&msg),
                    vcore::ast::show_log(&po.log)
                ));
            }
        }
        else {
            let typed = [(d.ret.clone(), env.rets[id].clone())];
            let decodes = vcore::decode::match_response_sequence(&typed, &written) == Ok(1);
            let tight = n < expected.len() + 16;
            if !((errors == 0 && decodes) || (errors >= 1 && tight)) {
                return Err(format!(
                    "process::<{}>: response fits but written '{}' (expected '{}'), {} errors [stream='{}']",
                    n,
                    esc(&written),
                    esc(&expected),
                    errors,
                    esc(&msg)
                ));
            }
        }
    }
    st.sample(|| json!({ "message": esc(&msg), "cap": cap, "N": n, "response_len": expected.len() }));
    Ok(())
}

// -------------------------------------------------------------------------------------------------
// long histories on one interface (state kept across messages: error queue, header path)
// -------------------------------------------------------------------------------------------------

const HISTORY_OPS: &[&[u8]] = &[
    b"X\n", b"A\n", b"A 300\n", b"A 'x'\n", b"@\n", b"E MAYBE\n", b"A 1,2\n", b"H:A 1;NOPE;A?\n", b"SYST:ERR?\n",
    b"SYST:ERR:NEXT?\n", b"SYST:ERR:COUN?\n", b"SYST:ERR?;ERR?;ERR?\n", b"SYST:ERR:NEXT?;COUN?;NEXT?\n", b"*A\n", b"A 1\n", b"A?\n",
    b"AE?\n", b"E:E? 9\n", b"H:E 'a\nb'\n", b"H:H #13a\nb;A 1\n", b"A 1;\n", b"\n", b"H:A 1;A 2;E 1\n", b"*E?;*E?;*E?\n",
];

fn history_q<const Q: usize>(stream: &[u8], n: usize, reads: &[usize], pauses: &[u8]) -> Result<(Vec<Ev>, Vec<Ev>), String> {
    let out = vrun::run_heapless::<fixture::mini::I<Q>, 64>(None, pauses, stream);
    check_run(&out)?;
    let po = match n {
        16 => vrun::process::<fixture::mini::I<Q>, 16>(None, pauses, stream, reads, None),
        64 => vrun::process::<fixture::mini::I<Q>, 64>(None, pauses, stream, reads, None),
        _ => vrun::process::<fixture::mini::I<Q>, 256>(None, pauses, stream, reads, None),
    };
    check_proc(&po, stream.len())?;
    Ok((out.log, po.log))
}

fn history_prop(tape: &[u32], st: &mut Stats) -> Result<(), String> {
    let mut t = Tape::new(tape);
    let q = [1usize, 2, 4][t.below(3)];
    let n = [16usize, 64, 256][t.below(3)];
    let n_ops = t.range(8, 60);
    let mut stream = Vec::new();
    for _ in 0..n_ops {
        stream.extend_from_slice(HISTORY_OPS[t.weighted(&[3, 3, 3, 3, 3, 3, 3, 3, 4, 4, 4, 2, 2, 1, 1, 1, 1, 1, 1, 1, 1, 1, 1, 1])]);
    }
    let reads = fixture::streams::gen_reads(&mut t, stream.len(), n);
    let np = t.below(3);
    let pauses: Vec<u8> = (0..np).map(|_| t.below(3) as u8).collect();
    let r = match q {
        1 => history_q::<1>(&stream, n, &reads, &pauses),
        2 => history_q::<2>(&stream, n, &reads, &pauses),
        _ => history_q::<4>(&stream, n, &reads, &pauses),
    };
    let (run_log, _proc_log) = r.map_err(|e| format!("{} [queue capacity {} N {} stream '{}']", e, q, n, esc(&stream)))?;
    let errors = run_log.iter().filter(|e| matches!(e, Ev::Error { .. })).count();
    let pops = run_log.iter().filter(|e| matches!(e, Ev::QPop { .. })).count();
    if errors > q {
        st.class("history with a queue overflow");
    }
    if errors > q && pops > 0 {
        st.class("overflow and queue reads in one history");
        st.nontrivial(&(&stream, q, n));
    }
    st.sample(|| json!({ "queue_capacity": q, "N": n, "messages": n_ops, "stream_start": esc(&stream[..stream.len().min(120)]) }));
    Ok(())
}

fn main() {
    let mut h = Harness::from_args("C05");
    let spec = vrun::spec_of(fixture::mini::SPEC_JSON);
    let model = Model::build(&spec).expect("mini fixture is collision-free");
    let ix = Index::new(&model, true);
    h.assume("handlers of the fixture do not panic; sizes are the instantiated sets N in 1..=64 plus 65,100,128,255,256,1000,4096 and capacities 0..=64");
    h.assume("a read into an empty destination slice counts as 'looping without consuming input'");

    let configs = all_configs();
    let full_len: u32 = 3;
    let max_len: u32 = h.tier.pick(5, 6);
    let per_string: u64 = h.tier.pick(6, 6);
    let total = total_strings(max_len);
    let full_total = total_strings(full_len);
    let rule = format!(
        "all {} byte strings of length <= {} over the {}-symbol alphabet {:?}; strings up to length {} under all {} configurations (run into heapless::Vec<u8,CAP> for CAP 0..=64; process::<N> for {} sizes x read sizes 1,2,3,max), longer ones under {} configurations rotating through that list; non-trivial = at least one handler or error event and (process mode, or a response that did not fit)",
        total, max_len, ALPHABET.len(), esc(ALPHABET), full_len, configs.len(), WITH_N_VALUES.len(), per_string
    );
    h.check(
        "c05.exhaustive",
        &rule,
        true,
        |h, st| {
            h.enum_search("c05.exhaustive", total, st, |idx, st| {
                let s = index_to_string(idx);
                st.evals -= 1; // count executions, not strings
                let n_cfg = configs.len() as u64;
                let picks: Vec<usize> = if idx < full_total {
                    (0..configs.len()).collect()
                }
                else {
                    (0..per_string).map(|j| ((idx * 7 + j * 53) % n_cfg) as usize).collect()
                };
                for ci in picks {
                    let cfg = &configs[ci];
                    st.eval();
                    match vcore::runner::guarded(|| exec(&s, cfg, &[], None)) {
                        Ok(log) => {
                            if interesting(&log) {
                                let fit = log.iter().any(|e| matches!(e, Ev::Error { num: -223 | -310, .. }));
                                match cfg {
                                    Config::Process { .. } => {
                                        st.nontrivial(&(&s, ci));
                                        st.class("process with events");
                                    }
                                    Config::Run { .. } if fit => {
                                        st.nontrivial(&(&s, ci));
                                        st.class("run with a response that did not fit");
                                    }
                                    _ => st.class("run with events"),
                                }
                            }
                            else {
                                st.class("no event");
                            }
                        }
                        Err(msg) => {
                            return Err((
                                format!("{} [input '{}' config {}]", msg, esc(&s), config_json(cfg)),
                                bytes_case(&s, cfg),
                            ))
                        }
                    }
                }
                if idx % 40_009 == 0 {
                    st.sample(|| json!({ "input": esc(&s) }));
                }
                Ok(())
            })
        },
        replay_bytes,
    );

    let cases = h.tier.pick(150_000, 2_000_000);
    h.check(
        "c05.random",
        "proptest tapes -> streams of 1-6 segments (valid messages over the mini fixture incl. payload newlines, byte-mutated valid messages, garbage tokens, random bytes) x random N x random CAP x random read schedule x random Pending script, through run and process; non-trivial = produced handler/error events and (response did not fit, or N < stream length, or a read boundary inside the stream)",
        false,
        |h, st| h.tape_search("c05.random", cases, 160, st, |tape, st| random_prop(&model, &ix, tape, st)),
        |case| replay_tape(case, |tape, st| random_prop(&model, &ix, tape, st)),
    );

    let cases = h.tier.pick(150_000, 1_000_000);
    h.check(
        "c05.smallbuf",
        "one valid query of the fixture with a generated return value, response capacity 0..=64 / process buffer N: if the predicted response does not fit at least one error must be reported (never a panic, never silence), if it fits the exact bytes must appear; non-trivial = the response did not fit",
        false,
        |h, st| h.tape_search("c05.smallbuf", cases, 64, st, |tape, st| smallbuf_prop(&model, tape, st)),
        |case| replay_tape(case, |tape, st| smallbuf_prop(&model, tape, st)),
    );
    let ty_spec = vrun::spec_of(fixture::ty::SPEC_JSON);
    let ty_model = Model::build(&ty_spec).expect("ty fixture is collision-free");
    let ty_queries: Vec<usize> = (0..ty_model.spec.decls.len()).filter(|&i| ty_model.spec.decls[i].cmd.starts_with("RET:") && ty_model.spec.decls[i].is_query()).collect();
    let cases = h.tier.pick(200_000, 3_000_000);
    h.check(
        "c05.values",
        "proptest tapes -> one or two queries of the ty fixture (one query per response type: all integer widths, f32/f64, bool, &str, heapless::String, String, blocks, character data, Error, tuples incl. nested, heapless vectors, slices) whose handlers return generated values (integer extremes, every class of float bit pattern incl. the largest/smallest magnitudes whose decimal text has hundreds of characters, NaN/inf, long UTF-8 strings, blocks up to 3000 bytes, composites) into heapless response buffers of 0..4096 bytes through run and through process::<24|64|400|4096>: never a panic, run returns a suffix, process ends only with the transport's error; whenever no error is reported the output is exactly the expected responses (decoded); non-trivial = a response that did not fit (error reported) or a value non-trivial by C04's rule",
        false,
        |h, st| h.tape_search("c05.values", cases, 120, st, |tape, st| values_prop(&ty_model, &ty_queries, tape, st)),
        |case| replay_tape(case, |tape, st| values_prop(&ty_model, &ty_queries, tape, st)),
    );
    let cases = h.tier.pick(60_000, 1_500_000);
    h.check(
        "c05.history",
        "proptest tapes -> histories of 8-60 messages on ONE interface (faults of every kind, queue reads and counts alone and several per message, valid commands and queries, payload newlines, messages ending in ';') for error-queue capacities 1, 2 and 4, through run in one buffer and through process::<16|64|256> under random schedules and Pending scripts; the state the library keeps across messages (error queue, header path, command buffer) must never lead to a panic, a non-suffix return or an early end; non-trivial = histories with a queue overflow and queue reads",
        false,
        |h, st| h.tape_search("c05.history", cases, 200, st, |tape, st| history_prop(tape, st)),
        |case| replay_tape(case, |tape, st| history_prop(tape, st)),
    );
    h.check(
        "c05.fuzz_replay",
        "seed inputs of the fz_stream campaign and saved fuzzer findings (byte layout: N index, capacity index, schedule seed, Pending seed, stream) under the C05 oracles",
        true,
        |_h, st| {
            for seed in fixture::fuzzing::STREAM_SEEDS {
                st.eval();
                if let Err(msg) = vcore::runner::guarded(|| fixture::fuzzing::stream_case_for(seed, true, false).map(|_| ())) {
                    return Some(vcore::runner::Failure {
                        message: msg,
                        case: json!({ "hex": hex(seed) }),
                    });
                }
                st.nontrivial(seed);
            }
            None
        },
        |case| fixture::fuzzing::stream_case_for(&unhex(case["hex"].as_str().unwrap_or("")), true, false).map(|_| ()),
    );
    fixture::fuzzing::campaign_part(&mut h, "C05", "c05.fuzz_campaign");
    h.finish();
}

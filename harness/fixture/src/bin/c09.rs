//! C09 - the error queue is a bounded FIFO with IEEE 488.2 overflow semantics.

use microscpi::{Error, ErrorQueue, StaticErrorQueue};
use serde_json::{json, Value};
use vcore::ast::{render_all, show_log, Ev, Lit, Message, Unit};
use vcore::gen::{self, Env, FailSpec, MatchCfg, QueueModel, UnitKind};
use vcore::runner::{esc, replay_tape, Harness, Stats};
use vcore::spec::{Header, Model};
use vcore::tape::Tape;
use vrun::RunOut;

const CAPS: [usize; 5] = [1, 2, 3, 4, 10];

fn run_q(cap: usize, env: &Env, pauses: &[u8], input: &[u8]) -> RunOut {
    match cap {
        1 => vrun::run_rec::<fixture::fx::I<1>>(Some(env), pauses, input),
        2 => vrun::run_rec::<fixture::fx::I<2>>(Some(env), pauses, input),
        3 => vrun::run_rec::<fixture::fx::I<3>>(Some(env), pauses, input),
        4 => vrun::run_rec::<fixture::fx::I<4>>(Some(env), pauses, input),
        10 => vrun::run_rec::<fixture::fx::I<10>>(Some(env), pauses, input),
        other => panic!("harness: capacity {} not instantiated", other),
    }
}

fn proc_q(cap: usize, env: &Env, stream: &[u8], reads: &[usize]) -> vrun::ProcOut {
    match cap {
        1 => vrun::process::<fixture::fx::I<1>, 4096>(Some(env), &[], stream, reads, None),
        2 => vrun::process::<fixture::fx::I<2>, 4096>(Some(env), &[], stream, reads, None),
        3 => vrun::process::<fixture::fx::I<3>, 4096>(Some(env), &[], stream, reads, None),
        4 => vrun::process::<fixture::fx::I<4>, 4096>(Some(env), &[], stream, reads, None),
        _ => vrun::process::<fixture::fx::I<10>, 4096>(Some(env), &[], stream, reads, None),
    }
}

fn hdr(abs: bool, mnems: &[&str], query: bool) -> Header {
    Header {
        absolute: abs,
        mnems: mnems.iter().map(|s| s.to_string()).collect(),
        query,
    }
}

const N_OPS: usize = 12;
/// operations only used by the random part: queue queries carrying a surplus parameter (must be
/// rejected without touching the queue)
const N_OPS_RANDOM: usize = 15;
const OP_NAMES: [&str; N_OPS] = [
    "syntax error", "undefined header", "parameter count", "data type", "out of range", "handler custom error",
    "handler standard error", "SYST:ERR?", "SYST:ERR:NEXT?", "SYST:ERR:COUN?", "valid command", "valid query",
];

/// One operation as an absolute unit (+ its kind for the predictor).
fn op_unit(op: usize) -> (Unit, UnitKind) {
    let s = |b: &str| Lit::Str {
        quote: b'\'',
        body: b.as_bytes().to_vec(),
    };
    match op {
        0 => {
            let mut u = Unit::new(hdr(false, &["A"], false), vec![]);
            u.raw = Some(b"@".to_vec());
            (u, UnitKind::Syntax)
        }
        1 => (Unit::new(hdr(true, &["NOPE"], false), vec![]), UnitKind::Normal),
        2 => (Unit::new(hdr(true, &["A"], false), vec![]), UnitKind::Normal),
        3 => (Unit::new(hdr(true, &["A"], false), vec![s("x")]), UnitKind::Normal),
        4 => (
            Unit::new(hdr(true, &["TST", "CH1_", "VAL"], false), vec![Lit::Dec("70000".into())]),
            UnitKind::Normal,
        ),
        5 => (
            Unit::new(
                hdr(true, &["C"], false),
                vec![Lit::Block {
                    ndig: 1,
                    body: vec![],
                }],
            ),
            UnitKind::Normal,
        ),
        6 => (Unit::new(hdr(true, &["B"], false), vec![s("x")]), UnitKind::Normal),
        7 => (Unit::new(hdr(true, &["SYST", "ERR"], true), vec![]), UnitKind::Normal),
        8 => (Unit::new(hdr(true, &["SYSTem", "ERRor", "NEXT"], true), vec![]), UnitKind::Normal),
        9 => (Unit::new(hdr(true, &["SYST", "ERR", "COUN"], true), vec![]), UnitKind::Normal),
        10 => (Unit::new(hdr(false, &["*RST"], false), vec![]), UnitKind::Normal),
        12 => (Unit::new(hdr(true, &["SYST", "ERR"], true), vec![Lit::Dec("1".into())]), UnitKind::Normal),
        13 => (Unit::new(hdr(true, &["SYST", "ERR", "COUN"], true), vec![s("x")]), UnitKind::Normal),
        // a valid command whose string payload contains a newline (process executes the message piecewise)
        14 => (
            Unit::new(
                hdr(true, &["SYST", "B"], false),
                vec![
                    s("a\nb"),
                    Lit::Block {
                        ndig: 1,
                        body: b"\n".to_vec(),
                    },
                ],
            ),
            UnitKind::Normal,
        ),
        _ => (Unit::new(hdr(true, &["A"], true), vec![]), UnitKind::Normal),
    }
}

fn base_env(model: &Model, cap: usize) -> Env {
    let mut env = Env::new(model, cap);
    let id = |cmd: &str| model.spec.decls.iter().position(|d| d.cmd == cmd).expect("fixture declaration");
    env.fail[id("C")] = Some(FailSpec::Custom(-321, 2)); // text contains double quotes
    env.fail[id("B")] = Some(FailSpec::Std(2)); // -240 Hardware error
    env
}

fn check_sequence(
    model: &Model, cap: usize, msgs: &[Message], kinds: &[Vec<UnitKind>], env: &Env, st: &mut Stats,
) -> Result<(bool, bool), String> {
    let stream = render_all(msgs);
    let pred = gen::predict(model, msgs, Some(kinds), env);
    let out = run_q(cap, env, &[], &stream);
    gen::match_log(
        &pred,
        &out.log,
        &MatchCfg {
            responses_in_log: true,
            output: None,
            qcap: cap,
        },
    )
    .map_err(|e| format!("capacity {}: run('{}'): {} [log: {}]", cap, esc(&stream), e, show_log(&out.log)))?;
    // statistics: did an overflow happen and was it read back?
    let mut q = QueueModel::new(cap);
    let mut overflow = false;
    let mut read_back = false;
    for e in &out.log {
        match e {
            Ev::Error { num, text } => {
                if q.q.len() == cap {
                    overflow = true;
                }
                q.push(*num, text);
            }
            Ev::QPop { num } => {
                if *num == Some(-350) && overflow {
                    read_back = true;
                }
                q.q.pop_front();
            }
            _ => {}
        }
        if q.q.len() > cap {
            return Err(format!("queue model exceeded its capacity (harness bug)"));
        }
    }
    let _ = st;
    Ok((overflow, read_back))
}

fn seq_from_index(mut idx: u64) -> Vec<usize> {
    let k = N_OPS as u64;
    let mut len = 1;
    let mut block = k;
    while idx >= block {
        idx -= block;
        block *= k;
        len += 1;
    }
    let mut s = vec![0usize; len];
    for i in (0..len).rev() {
        s[i] = (idx % k) as usize;
        idx /= k;
    }
    s
}

fn run_ops(model: &Model, cap: usize, ops: &[usize], st: &mut Stats) -> Result<(), String> {
    let env = base_env(model, cap);
    let mut msgs = Vec::new();
    let mut kinds = Vec::new();
    for op in ops {
        let (u, k) = op_unit(*op);
        msgs.push(Message::new(vec![u]));
        kinds.push(vec![k]);
    }
    let (overflow, read_back) = check_sequence(model, cap, &msgs, &kinds, &env, st)?;
    if overflow {
        st.class("sequence with overflow");
    }
    if read_back {
        st.class("overflow entry read back");
        st.nontrivial(&(cap, ops));
    }
    Ok(())
}

/// Random sequences grouped into messages of 1-3 units, with relative forms of the queue queries.
fn random_prop(model: &Model, tape: &[u32], st: &mut Stats) -> Result<(), String> {
    let mut t = Tape::new(tape);
    let cap = CAPS[t.below(CAPS.len())];
    let mut env = base_env(model, cap);
    // vary the custom error
    let idc = model.spec.decls.iter().position(|d| d.cmd == "C").unwrap();
    env.fail[idc] = Some(FailSpec::Custom(
        match t.below(4) {
            0 => -321,
            1 => t.below(2000) as i16 - 1000,
            2 => i16::MIN,
            _ => i16::MAX,
        },
        t.below(8),
    ));
    let n_ops = t.range(1, 40);
    let mut msgs: Vec<Message> = Vec::new();
    let mut kinds: Vec<Vec<UnitKind>> = Vec::new();
    let mut cur: Vec<Unit> = Vec::new();
    let mut cur_k: Vec<UnitKind> = Vec::new();
    let mut interleaved = false;
    let mut ops_done = 0;
    while ops_done < n_ops {
        let op = t.weighted(&[2, 2, 2, 2, 2, 2, 2, 3, 3, 3, 1, 1, 1, 1, 1]);
        debug_assert!(op < N_OPS_RANDOM);
        let (mut u, k) = op_unit(op);
        // relative forms: after SYST:ERR:NEXT? the queue queries can be addressed relative
        if let Some(prev) = cur.last() {
            let prev_is_next = prev.header.mnems.len() == 3 && prev.header.mnems[1].to_ascii_uppercase().starts_with("ERR");
            if prev_is_next && t.chance(1, 2) {
                match op {
                    8 => u.header = hdr(false, &["NEXT"], true),
                    9 => u.header = hdr(false, &["COUNt"], true),
                    _ => {}
                }
            }
        }
        let is_parse_fault = matches!(op, 0 | 1);
        if !cur.is_empty() && (7..=9).contains(&op) && cur_k.len() < 3 {
            interleaved = true;
        }
        cur.push(u);
        cur_k.push(k);
        ops_done += 1;
        // parse-type faults end their message (they drop the rest of it anyway)
        if is_parse_fault || cur.len() >= 3 || t.chance(1, 2) {
            msgs.push(Message::new(std::mem::take(&mut cur)));
            kinds.push(std::mem::take(&mut cur_k));
        }
    }
    if !cur.is_empty() {
        msgs.push(Message::new(cur));
        kinds.push(cur_k);
    }
    let (overflow, read_back) = check_sequence(model, cap, &msgs, &kinds, &env, st)?;
    // the same history streamed through process (the queue answers must be the same bytes)
    {
        let stream = render_all(&msgs);
        let pred = gen::predict(model, &msgs, Some(&kinds), &env);
        let reads = vrun::props::gen_reads(&mut t, stream.len(), 4096);
        let po = proc_q(cap, &env, &stream, &reads);
        let (_, written) = vrun::observation(&po.log, &[]);
        gen::match_log(
            &pred,
            &po.log,
            &MatchCfg {
                responses_in_log: false,
                output: Some(written),
                qcap: cap,
            },
        )
        .map_err(|e| format!("capacity {}: process::<4096>('{}'): {} [log: {}]", cap, esc(&stream), e, show_log(&po.log)))?;
    }
    if overflow {
        st.class("sequence with overflow");
    }
    if read_back {
        st.class("overflow entry read back");
    }
    if interleaved {
        st.class("queue query after another unit in one message");
    }
    if read_back || interleaved {
        st.nontrivial(&(cap, render_all(&msgs)));
    }
    st.class(&format!("capacity {}", cap));
    st.sample(|| json!({ "capacity": cap, "stream": esc(&render_all(&msgs)) }));
    Ok(())
}

/// The ErrorQueue trait driven directly.
fn direct<const Q: usize>(ops: &[usize]) -> Result<bool, String> {
    let errs = [Error::UndefinedHeader, Error::Custom(-1234, "x\"y"), Error::DataTypeError];
    // number and description of each value as the library defines them (only the overflow entry's
    // text comes from the model)
    let texts: Vec<(i16, String)> = errs
        .iter()
        .map(|e| {
            let t: &str = (*e).into();
            (e.number(), t.to_string())
        })
        .collect();
    let mut q: StaticErrorQueue<Q> = StaticErrorQueue::new();
    let mut m = QueueModel::new(Q);
    let mut overflow = false;
    for (i, op) in ops.iter().enumerate() {
        match *op {
            0..=2 => {
                if m.q.len() == Q {
                    overflow = true;
                }
                q.push_error(errs[*op]);
                m.push(texts[*op].0, &texts[*op].1);
            }
            3 => {
                let got = q.pop_error().map(|e| {
                    let t: &str = e.into();
                    (e.number(), t.to_string())
                });
                let want = m.q.pop_front();
                if got != want {
                    return Err(format!("capacity {} ops {:?}: pop #{} returned {:?}, model says {:?}", Q, ops, i, got, want));
                }
            }
            _ => {}
        }
        if q.error_count() != m.q.len() {
            return Err(format!(
                "capacity {} ops {:?}: after op #{} error_count() = {}, model says {}",
                Q,
                ops,
                i,
                q.error_count(),
                m.q.len()
            ));
        }
        if q.error_count() > Q {
            return Err(format!("capacity {}: queue holds {} entries", Q, q.error_count()));
        }
    }
    Ok(overflow)
}

fn direct_cap(cap: usize, ops: &[usize]) -> Result<bool, String> {
    match cap {
        1 => direct::<1>(ops),
        2 => direct::<2>(ops),
        3 => direct::<3>(ops),
        4 => direct::<4>(ops),
        _ => direct::<10>(ops),
    }
}

fn main() {
    let mut h = Harness::from_args("C09");
    let spec = vrun::spec_of(fixture::fx::SPEC_JSON);
    let model = Model::build(&spec).expect("fx fixture is collision-free");
    h.assume("the reference queue is fed with the error values observed at the queue's input (push_error), so the check does not depend on which number a particular syntax error gets; descriptions are the texts the library associates with those values, except 'Queue overflow', which the model supplies itself");
    let depth: u32 = h.tier.pick(5, 7);
    let per_cap: u64 = (1..=depth).map(|l| (N_OPS as u64).pow(l)).sum();
    let total = per_cap * CAPS.len() as u64;
    h.check(
        "c09.exhaustive",
        &format!("ALL sequences of 1..={} operations from {:?} (one operation per message, through Interface::run with a recording writer and a recording queue) for every capacity in {:?}: every SYST:ERR[:NEXT]? and COUNt? response must equal byte for byte what a VecDeque reference queue (push on full => newest entry becomes -350 Queue overflow) predicts; non-trivial = a sequence in which the overflow entry is read back", depth, OP_NAMES, CAPS),
        true,
        |h, st| {
            h.enum_search("c09.exhaustive", total, st, |idx, st| {
                let cap = CAPS[(idx / per_cap) as usize];
                let ops = seq_from_index(idx % per_cap);
                run_ops(&model, cap, &ops, st).map_err(|e| (e, json!({ "cap": cap, "ops": ops })))?;
                if idx % 30_011 == 0 {
                    st.sample(|| json!({ "capacity": cap, "ops": ops.iter().map(|o| OP_NAMES[*o]).collect::<Vec<_>>() }));
                }
                Ok(())
            })
        },
        |case: &Value| {
            let cap = case["cap"].as_u64().unwrap_or(1) as usize;
            let ops: Vec<usize> = case["ops"].as_array().map(|a| a.iter().map(|x| x.as_u64().unwrap_or(0) as usize).collect()).unwrap_or_default();
            run_ops(&model, cap, &ops, &mut Stats::default())
        },
    );
    let cases = h.tier.pick(150_000, 2_000_000);
    h.check(
        "c09.random",
        "proptest tapes -> 1-40 operations grouped into messages of 1-3 units (several faults and queue queries in one message, relative NEXT?/COUNt? after SYST:ERR:NEXT?, handler errors with generated numbers incl. i16 extremes and texts containing double quotes), random capacity; same oracle; non-trivial = overflow read back, or a queue query following another unit inside one message",
        false,
        |h, st| h.tape_search("c09.random", cases, 200, st, |tape, st| random_prop(&model, tape, st)),
        |case| replay_tape(case, |tape, st| random_prop(&model, tape, st)),
    );
    let ddepth: u32 = h.tier.pick(8, 10);
    let dper: u64 = (1..=ddepth).map(|l| 5u64.pow(l)).sum();
    let dtotal = dper * CAPS.len() as u64;
    h.check(
        "c09.direct",
        &format!("ALL sequences of 1..={} operations {{push e1, push e2, push e3, pop, count}} on StaticErrorQueue<N> directly, N in {:?}, against the same reference queue (contents, order, count <= N after every step); non-trivial = sequence with an overflow", ddepth, CAPS),
        true,
        |h, st| {
            h.enum_search("c09.direct", dtotal, st, |idx, st| {
                let cap = CAPS[(idx / dper) as usize];
                let mut i = idx % dper;
                let mut len = 1;
                let mut block = 5u64;
                while i >= block {
                    i -= block;
                    block *= 5;
                    len += 1;
                }
                let mut ops = vec![0usize; len];
                for k in (0..len).rev() {
                    ops[k] = (i % 5) as usize;
                    i /= 5;
                }
                match direct_cap(cap, &ops) {
                    Ok(overflow) => {
                        if overflow {
                            st.nontrivial(&(cap, &ops));
                        }
                        Ok(())
                    }
                    Err(e) => Err((e, json!({ "cap": cap, "ops": ops }))),
                }
            })
        },
        |case: &Value| {
            let cap = case["cap"].as_u64().unwrap_or(1) as usize;
            let ops: Vec<usize> = case["ops"].as_array().map(|a| a.iter().map(|x| x.as_u64().unwrap_or(0) as usize).collect()).unwrap_or_default();
            direct_cap(cap, &ops).map(|_| ())
        },
    );
    h.finish();
}

//! C08 - strings and blocks are transparent containers, also across reads.

use fixture::streams::gen_reads;
use fixture::{with_fn, WITH_FN_VALUES};
use serde_json::json;
use vcore::ast::{render_all, Ev, Lit, Message};
use vcore::gen::{self, Env, GenCfg, Index, MatchCfg};
use vcore::runner::{esc, replay_tape, Harness, Stats};
use vcore::spec::{Model, Ty};
use vcore::tape::Tape;
use vrun::ProcOut;

type Fx = fixture::fx::I<8>;

fn proc_fx<const N: usize>(env: Option<&Env>, pauses: &[u8], stream: &[u8], reads: &[usize]) -> ProcOut {
    vrun::process::<Fx, N>(env, pauses, stream, reads, None)
}

fn payload_stats(msgs: &[Message]) -> (bool, bool, bool) {
    // (newline in a payload, newline in a payload of a unit that is not the first, other separator)
    let mut nl = false;
    let mut nl_later = false;
    let mut sep = false;
    for m in msgs {
        for (ui, u) in m.units.iter().enumerate() {
            for a in &u.args {
                if let Some(p) = a.payload() {
                    if p.contains(&b'\n') {
                        nl = true;
                        if ui > 0 {
                            nl_later = true;
                        }
                    }
                    if p.iter().any(|b| matches!(b, b';' | b',' | b':' | b'#' | b'\'' | b'"')) {
                        sep = true;
                    }
                }
            }
        }
    }
    (nl, nl_later, sep)
}

fn twin(msgs: &[Message]) -> Vec<Message> {
    let mut out = msgs.to_vec();
    for m in out.iter_mut() {
        for u in m.units.iter_mut() {
            for a in u.args.iter_mut() {
                match a {
                    Lit::Str { body, .. } | Lit::Block { body, .. } => {
                        for b in body.iter_mut() {
                            if *b == b'\n' {
                                *b = b'x';
                            }
                        }
                    }
                    _ => {}
                }
            }
        }
    }
    out
}

fn handler_ids(log: &[Ev]) -> Vec<i64> {
    log.iter()
        .filter_map(|e| match e {
            Ev::Handler { id, .. } => Some(*id as i64),
            Ev::Error { num, .. } => Some(-(*num as i64) - 100_000),
            _ => None,
        })
        .collect()
}

fn prop(model: &Model, ix: &Index, tape: &[u32], st: &mut Stats) -> Result<(), String> {
    let mut t = Tape::new(tape);
    let mut cfg = GenCfg::default();
    cfg.lit.newlines = true;
    cfg.lit.max_payload = 10;
    cfg.max_units = 4;
    cfg.p_empty_message = 0;
    cfg.boost = model
        .spec
        .decls
        .iter()
        .enumerate()
        .filter(|(_, d)| d.params.iter().any(|p| matches!(p, Ty::Str | Ty::Bytes)))
        .map(|(i, _)| i)
        .collect();
    let env = Env::new(model, 8);
    let n_msgs = t.weighted(&[3, 2, 1]) + 1;
    let msgs: Vec<Message> = (0..n_msgs).map(|_| gen::gen_message(&mut t, ix, &cfg)).collect();
    let stream = render_all(&msgs);
    let pred = gen::predict(model, &msgs, None, &env);
    if pred.iter().any(|p| matches!(p, gen::PEv::Error(_))) {
        // generated messages are valid by construction
        return Err(format!("harness: prediction of a valid message contains an error: '{}'", esc(&stream)));
    }

    // (1) whole, through run with the recording writer
    let out = vrun::run_rec::<Fx>(Some(&env), &[], &stream);
    gen::match_log(
        &pred,
        &out.log,
        &MatchCfg {
            responses_in_log: true,
            output: None,
            qcap: 8,
        },
    )
    .map_err(|e| format!("run('{}'): {} [log: {}]", esc(&stream), e, vcore::ast::show_log(&out.log)))?;
    if out.rest != 0 {
        return Err(format!("run('{}') left {} bytes unprocessed", esc(&stream), out.rest));
    }

    // twin without payload newlines: same handlers, same (absence of) errors
    let tw = twin(&msgs);
    let tw_stream = render_all(&tw);
    let tw_out = vrun::run_rec::<Fx>(Some(&env), &[], &tw_stream);
    if handler_ids(&tw_out.log) != handler_ids(&out.log) {
        return Err(format!(
            "handlers/errors differ between '{}' and its twin without payload newlines '{}'",
            esc(&stream),
            esc(&tw_stream)
        ));
    }

    // (2) streamed through process, N >= longest message (sometimes exactly)
    let longest = msgs.iter().map(|m| m.rendered().len()).max().unwrap_or(1);
    let need = longest.max(vrun::props::response_bound(&pred));
    let fitting: Vec<usize> = WITH_FN_VALUES.iter().copied().filter(|n| *n >= need).collect();
    if fitting.is_empty() {
        st.class("message longer than the largest buffer");
        return Ok(());
    }
    let n = fitting[t.below(fitting.len().min(3))];
    // pad a single message with trailing white space so that it fills the buffer exactly
    let (stream, exact) = if msgs.len() == 1 && n - longest <= 24 && t.chance(1, 2) {
        let mut m = msgs[0].clone();
        m.tail_ws.extend(std::iter::repeat(b' ').take(n - longest));
        if !m.trailing_semicolon && !m.units.is_empty() {
            let last = m.units.len() - 1;
            m.units[last].ws.end.extend(std::iter::repeat(b' ').take(n - longest));
            m.tail_ws.clear();
        }
        (m.rendered(), true)
    }
    else {
        (stream, false)
    };
    let inner: Vec<usize> = {
        let ends: Vec<usize> = {
            let mut v = Vec::new();
            let mut pos = 0;
            for m in &msgs {
                pos += m.rendered().len();
                v.push(pos - 1);
            }
            v
        };
        (0..stream.len()).filter(|i| stream[*i] == b'\n' && !ends.contains(i) && !exact).collect()
    };
    for variant in 0..4 {
        let reads: Vec<usize> = if variant == 0 && !inner.is_empty() {
            // read boundaries right after every payload newline
            let mut r = Vec::new();
            let mut last = 0;
            for p in &inner {
                r.push(p + 1 - last);
                last = p + 1;
            }
            r.push(usize::MAX);
            r
        }
        else if variant == 1 {
            vec![1; stream.len()]
        }
        else {
            gen_reads(&mut t, stream.len(), n)
        };
        let np = t.below(4);
        let pauses: Vec<u8> = (0..np).map(|_| t.below(3) as u8).collect();
        let po = with_fn!(n, proc_fx, Some(&env), &pauses, &stream, &reads);
        let (_, written) = vrun::observation(&po.log, &[]);
        gen::match_log(
            &pred,
            &po.log,
            &MatchCfg {
                responses_in_log: false,
                output: Some(written),
                qcap: 8,
            },
        )
        .map_err(|e| {
            let shown: Vec<i64> = reads.iter().map(|r| if *r == usize::MAX { -1 } else { *r as i64 }).collect();
            format!(
                "process::<{}>('{}') reads {:?}: {} [log: {}]",
                n,
                esc(&stream),
                shown,
                e,
                vcore::ast::show_log(&po.log)
            )
        })?;
        st.evals_add(1);
    }
    let (nl, nl_later, sep) = payload_stats(&msgs);
    if nl {
        st.class("payload with newline");
    }
    if nl_later {
        st.class("payload newline after the first unit");
    }
    if sep {
        st.class("payload with separator or quote");
    }
    if exact {
        st.class("message fills the buffer exactly");
    }
    if nl_later || (sep && nl) {
        st.nontrivial(&stream);
    }
    st.sample(|| json!({ "stream": esc(&stream), "N": n }));
    Ok(())
}

fn main() {
    let mut h = Harness::from_args("C08");
    let spec = vrun::spec_of(fixture::fx::SPEC_JSON);
    let model = Model::build(&spec).expect("fx fixture is collision-free");
    let ix = Index::new(&model, true);
    h.assume("buffer sizes for process are the instantiated set 8..4096; a message is padded with trailing blanks to fill the buffer exactly in part of the cases");
    let cases = h.tier.pick(150_000, 12_000_000);
    h.check(
        "c08.payloads",
        "proptest tapes -> 1-3 valid messages of 1-4 units over the fx fixture (path-dependent relative headers; string and block parameters at argument positions 1..10, payload bytes weighted towards newline ; , : # quotes and white space, blocks over all 256 byte values, zero-padded block lengths) -> (1) run whole with a recording writer must match the reference interpreter exactly (handlers, verbatim payloads, responses, no error); (2) process::<N> with N >= longest message under 4 schedules (boundary after every payload newline, single bytes, 2 random) and Pending scripts must match the same prediction; (3) the twin with payload newlines replaced runs the same handlers; non-trivial = payload newline in a unit after the first, or newline plus separator/quote in payloads",
        false,
        |h, st| h.tape_search("c08.payloads", cases, 220, st, |tape, st| prop(&model, &ix, tape, st)),
        |case| replay_tape(case, |tape, st| prop(&model, &ix, tape, st)),
    );
    h.finish();
}

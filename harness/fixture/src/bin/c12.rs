//! C12 - parser verdicts are final and depend only on the consumed bytes.

use fixture::streams::ALPHABET;
use microscpi::parser::{parse, CommandCall, ParseError};
use microscpi::{Interface, Node};
use serde_json::{json, Value};
use vcore::gen::{self, GenCfg, Index};
use vcore::runner::{esc, hex, replay_tape, unhex, Harness, Stats};
use vcore::spec::Model;
use vcore::tape::Tape;
use vrun::Fixture;

type Mini = fixture::mini::I<4>;

fn collect_nodes(root: &'static Node) -> Vec<(&'static Node, String)> {
    let mut out: Vec<(&'static Node, String)> = vec![(root, String::new())];
    let mut i = 0;
    while i < out.len() {
        let (n, path) = (out[i].0, out[i].1.clone());
        for (name, child) in n.children {
            if !out.iter().any(|(c, _)| std::ptr::eq(*c, *child)) {
                out.push((child, format!("{}:{}", path, name)));
            }
        }
        i += 1;
    }
    out
}

#[derive(Debug, PartialEq, Clone, Copy)]
enum Verdict {
    Ok,
    Incomplete,
    Error,
}

fn verdict(r: &Result<(&[u8], Option<CommandCall<'_>>), ParseError>) -> Verdict {
    match r {
        Ok(_) => Verdict::Ok,
        Err(ParseError::Incomplete) => Verdict::Incomplete,
        Err(_) => Verdict::Error,
    }
}

fn continuations(max_len: u32) -> Vec<Vec<u8>> {
    let mut v: Vec<Vec<u8>> = Vec::new();
    let k = ALPHABET.len() as u64;
    let total: u64 = (1..=max_len).map(|l| k.pow(l)).sum();
    for mut idx in 0..total {
        let mut len = 1;
        let mut block = k;
        while idx >= block {
            idx -= block;
            block *= k;
            len += 1;
        }
        let mut s = vec![0u8; len];
        for i in (0..len).rev() {
            s[i] = ALPHABET[(idx % k) as usize];
            idx /= k;
        }
        v.push(s);
    }
    for closer in [
        &b"'\n"[..], b"\"\n", b"';A\n", b"\";A\n", b"x'\n", b"x\"\n", b"1\n", b"11\n", b"1111111111\n", b"AAAAAAAAAAAA\n",
        b"A 1\n", b"''\n", b"\"\"\n", b"'\"\n", b"\"'\n", b" '\n", b"\n'\n", b"\n\"\n", b"\n\n", b";\n",
    ] {
        v.push(closer.to_vec());
    }
    v
}

/// Checks clauses (1) and (2) for one (start node, x) against the continuation set.
fn check_x(
    root: &'static Node, start: &'static Node, x: &[u8], conts: &[Vec<u8>], st: &mut Stats, buf: &mut Vec<u8>,
) -> Result<(), String> {
    let r = parse(root, start, x);
    let v = verdict(&r);
    match &r {
        Ok((rem, call)) => {
            if rem.len() >= x.len() {
                return Err(format!("accepted '{}' without consuming a byte", esc(x)));
            }
            let consumed = x.len() - rem.len();
            if call.is_some() {
                st.nontrivial(&(x, start as *const Node as usize));
                st.class("x accepted (unit)");
            }
            else {
                st.class("x accepted (empty unit)");
            }
            for y in conts {
                buf.clear();
                buf.extend_from_slice(x);
                buf.extend_from_slice(y);
                st.evals_add(1);
                match parse(root, start, buf) {
                    Ok((rem2, call2)) => {
                        if rem2.len() != buf.len() - consumed || call2 != *call {
                            return Err(format!(
                                "parse('{}') = {} consuming {} bytes, but parse('{}') = {} leaving {} bytes",
                                esc(x),
                                show(call),
                                consumed,
                                esc(buf),
                                show(&call2),
                                rem2.len()
                            ));
                        }
                    }
                    other => {
                        return Err(format!(
                            "parse('{}') accepted a unit, but with '{}' appended the verdict is {:?}",
                            esc(x),
                            esc(y),
                            other.err()
                        ))
                    }
                }
            }
        }
        Err(ParseError::Incomplete) => {
            // (3) an input with a newline that cannot be inside a string or block holds a complete
            // unit (or a complete faulty message)
            if let Some(pos) = x.iter().position(|b| *b == b'\n') {
                if !x[..pos].iter().any(|b| matches!(b, b'\'' | b'"' | b'#')) {
                    return Err(format!(
                        "parse('{}') = Incomplete although the input contains a terminator outside any string or block",
                        esc(x)
                    ));
                }
            }
            if x.iter().any(|b| b.is_ascii_alphabetic()) {
                st.class("x incomplete");
            }
        }
        Err(_) => {
            if x.last() == Some(&b'\n') {
                st.class("x rejected, newline-terminated");
                if x.iter().any(|b| matches!(b, b'\'' | b'"' | b'#')) {
                    st.nontrivial(&(x, start as *const Node as usize, 2u8));
                }
                for y in conts {
                    buf.clear();
                    buf.extend_from_slice(x);
                    buf.extend_from_slice(y);
                    st.evals_add(1);
                    if let Ok((_, call2)) = parse(root, start, buf) {
                        return Err(format!(
                            "parse('{}') is rejected with {:?} (not Incomplete), yet its continuation '{}' is accepted as {}",
                            esc(x),
                            r.as_ref().err(),
                            esc(buf),
                            show(&call2)
                        ));
                    }
                }
            }
            else {
                st.class("x rejected, unterminated");
            }
        }
    }
    let _ = v;
    Ok(())
}

fn index_to_string(mut idx: u64) -> Vec<u8> {
    let k = ALPHABET.len() as u64;
    let mut len = 0;
    let mut block = 1u64;
    while idx >= block {
        idx -= block;
        block *= k;
        len += 1;
    }
    let mut s = vec![0u8; len];
    for i in (0..len).rev() {
        s[i] = ALPHABET[(idx % k) as usize];
        idx /= k;
    }
    s
}

use vrun::props::{c12_show as show, c12_unit_prop as unit_prop};

fn main() {
    let mut h = Harness::from_args("C12");
    let spec = vrun::spec_of(fixture::mini::SPEC_JSON);
    let model = Model::build(&spec).expect("mini fixture is collision-free");
    let ix = Index::new(&model, true);
    let root: &'static Node = Mini::new_fixture().root_node();
    let nodes = collect_nodes(root);
    h.assume("microscpi::parser::parse is called directly (public, doc-hidden) on the tree generated by the macro for the mini fixture");
    h.assume("clause 3 ('incomplete' only inside a unit) is checked where the ground truth is unambiguous: generated complete units, and inputs whose first newline is preceded by no quote and no '#'");

    let max_len: u32 = h.tier.pick(5, 6);
    let cont_len: u32 = 2;
    let conts = continuations(cont_len);
    // start nodes: the root and two inner nodes for every x; all nodes for short x
    let main_nodes: Vec<usize> = {
        let mut v = vec![0usize];
        for (i, (_, p)) in nodes.iter().enumerate() {
            if p == ":H" || p == ":A" {
                v.push(i);
            }
        }
        v
    };
    let k = ALPHABET.len() as u64;
    let total: u64 = (0..=max_len).map(|l| k.pow(l)).sum();
    let short_total: u64 = (0..=3u32).map(|l| k.pow(l)).sum();
    let rule = format!(
        "all {} byte strings x of length <= {} over the alphabet {:?} x start nodes (root, :H, :A; all {} tree nodes for |x| <= 3); for accepted x and for newline-terminated rejected x every one of {} continuations y (all strings of length <= {} plus string/block closers) is appended and re-parsed; non-trivial = x accepted as a unit, or newline-terminated rejected x containing a quote or '#'",
        total, max_len, esc(ALPHABET), nodes.len(), conts.len(), cont_len
    );
    h.check(
        "c12.exhaustive",
        &rule,
        true,
        |h, st| {
            h.enum_search("c12.exhaustive", total, st, |idx, st| {
                let x = index_to_string(idx);
                let mut buf = Vec::with_capacity(32);
                let all: Vec<usize> = (0..nodes.len()).collect();
                let starts = if idx < short_total { &all } else { &main_nodes };
                st.evals -= 1;
                for &ni in starts {
                    st.eval();
                    if let Err(msg) = check_x(root, nodes[ni].0, &x, &conts, st, &mut buf) {
                        return Err((
                            format!("start node '{}': {}", nodes[ni].1, msg),
                            json!({ "hex": hex(&x), "text": esc(&x), "node": nodes[ni].1 }),
                        ));
                    }
                }
                if idx % 50_021 == 0 {
                    st.sample(|| json!({ "x": esc(&x) }));
                }
                Ok(())
            })
        },
        |case: &Value| {
            let x = unhex(case["hex"].as_str().unwrap_or(""));
            let name = case["node"].as_str().unwrap_or("");
            let start = nodes.iter().find(|(_, p)| p == name).map(|(n, _)| *n).unwrap_or(root);
            let mut st = Stats::default();
            let mut buf = Vec::new();
            check_x(root, start, &x, &continuations(3), &mut st, &mut buf)
        },
    );

    let cases = h.tier.pick(300_000, 3_000_000);
    h.check(
        "c12.units",
        "proptest tapes -> one well-formed unit of the mini fixture (strings/blocks with arbitrary payloads incl. newlines, quotes, '#', ';') in a reachable path context, terminated by ';' or newline, plus a random tail: the unit alone and unit+tail must give the same call and the remainder must be exactly the tail, never Incomplete; every proper prefix must be Incomplete or rejected, and a newline-terminated prefix must not be rejected when the unit is accepted; non-trivial = payload newline or non-empty tail",
        false,
        |h, st| h.tape_search("c12.units", cases, 96, st, |tape, st| unit_prop(&model, &ix, root, tape, st)),
        |case| replay_tape(case, |tape, st| unit_prop(&model, &ix, root, tape, st)),
    );
    // the same unit-level relations on the larger fx tree
    let spec_fx = vrun::spec_of(fixture::fx::SPEC_JSON);
    let model_fx = Model::build(&spec_fx).expect("fx fixture is collision-free");
    let ix_fx = Index::new(&model_fx, true);
    let root_fx: &'static Node = fixture::fx::I::<8>::new_fixture().root_node();
    let cases = h.tier.pick(100_000, 2_000_000);
    h.check(
        "c12.units_fx",
        "the c12.units relations on the tree of the fx fixture (28 declarations, optional nodes, strings and blocks at argument positions 1-10, contexts up to three levels deep)",
        false,
        |h, st| h.tape_search("c12.units_fx", cases, 200, st, |tape, st| unit_prop(&model_fx, &ix_fx, root_fx, tape, st)),
        |case| replay_tape(case, |tape, st| unit_prop(&model_fx, &ix_fx, root_fx, tape, st)),
    );
    let fnodes = fixture::fuzzing::mini_nodes();
    h.check(
        "c12.fuzz_replay",
        "seed inputs of the fz_parse campaign and saved fuzzer findings (byte layout: start node index, split position, bytes) under the C12 oracles",
        true,
        |_h, st| {
            for seed in fixture::fuzzing::PARSE_SEEDS {
                st.eval();
                if let Err(msg) = vcore::runner::guarded(|| fixture::fuzzing::parse_case(&fnodes, seed).map(|_| ())) {
                    return Some(vcore::runner::Failure {
                        message: msg,
                        case: json!({ "hex": hex(seed) }),
                    });
                }
                st.nontrivial(seed);
            }
            None
        },
        |case| fixture::fuzzing::parse_case(&fnodes, &unhex(case["hex"].as_str().unwrap_or(""))).map(|_| ()),
    );
    fixture::fuzzing::campaign_part(&mut h, "C12", "c12.fuzz_campaign");
    h.finish();
}

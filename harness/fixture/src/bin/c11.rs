//! C11 - lexical variations allowed by IEEE 488.2 do not change the meaning.

use serde_json::{json, Value};
use vcore::ast::Message;
use vcore::gen::{Env, Index, WS_BYTES};
use vcore::runner::{esc, hash_of, replay_tape, Harness, Stats};
use vcore::spec::Model;
use vcore::tape::Tape;
use vrun::props::{c11_compare, c11_gen_base, c11_random_prop, Exec};
use vrun::{ProcOut, RunOut};

type Fx = fixture::fx::I<8>;

fn exec() -> Exec<'static> {
    fn rr(env: &Env, pauses: &[u8], input: &[u8]) -> RunOut {
        vrun::run_rec::<Fx>(Some(env), pauses, input)
    }
    fn pp(env: &Env, _n: usize, pauses: &[u8], stream: &[u8], reads: &[usize]) -> ProcOut {
        vrun::process::<Fx, 1024>(Some(env), pauses, stream, reads, None)
    }
    Exec {
        run_rec: &rr,
        process: &pp,
        sizes: &[1024],
        qcap: 8,
    }
}

fn compare(env: &Env, base: &Message, variant: &Message) -> Result<(), String> {
    c11_compare(&exec(), env, base, variant)
}

fn random_prop(model: &Model, ix: &Index, tape: &[u32], st: &mut Stats) -> Result<(), String> {
    c11_random_prop(model, ix, &exec(), tape, st)
}

fn gen_base(t: &mut Tape, model: &Model, ix: &Index, env: &mut Env) -> Message {
    c11_gen_base(t, model, ix, env)
}

/// Base messages for the exhaustive white-space part: deterministic tapes, at least two units, one
/// of them with two or more parameters, one message ending in ';'.
fn fixed_bases(model: &Model, ix: &Index, count: usize) -> Vec<(Message, Env)> {
    let mut out = Vec::new();
    let mut i = 0u64;
    while out.len() < count && i < 100_000 {
        let tape: Vec<u32> = (0..120).map(|k| (hash_of(&(i, k)) >> 16) as u32).collect();
        i += 1;
        let mut t = Tape::new(&tape);
        let mut env = Env::new(model, 8);
        let mut m = gen_base(&mut t, model, ix, &mut env);
        if m.units.len() < 2 || !m.units.iter().any(|u| u.args.len() >= 2) {
            continue;
        }
        m.trailing_semicolon = out.len() % 4 == 3;
        out.push((m, env));
    }
    out
}

const SLOTS: [&str; 6] = ["before unit", "header-parameter gap", "before comma", "after comma", "before ';'/terminator", "after trailing ';'"];

fn ws_case(bases: &[(Message, Env)], idx: u64) -> (usize, usize, u8, usize) {
    let nb = bases.len() as u64;
    let b = (idx % nb) as usize;
    let slot = ((idx / nb) % 6) as usize;
    let byte = WS_BYTES[((idx / nb / 6) % 32) as usize];
    let rep = 1 + (idx / nb / 6 / 32) as usize; // 1 or 2 bytes
    (b, slot, byte, rep)
}

fn run_ws_case(bases: &[(Message, Env)], idx: u64, st: &mut Stats) -> Result<(), String> {
    let (b, slot, byte, rep) = ws_case(bases, idx);
    let (base, env) = &bases[b];
    let mut v = base.clone();
    let w = vec![byte; rep];
    let mut applied = false;
    for u in v.units.iter_mut() {
        match slot {
            0 => {
                u.ws.before = w.clone();
                applied = true;
            }
            1 => {
                if !u.args.is_empty() {
                    u.ws.gap = w.clone();
                    applied = true;
                }
            }
            2 => {
                if u.args.len() >= 2 {
                    u.ws.before_comma = w.clone();
                    applied = true;
                }
            }
            3 => {
                if u.args.len() >= 2 {
                    u.ws.after_comma = w.clone();
                    applied = true;
                }
            }
            4 => {
                u.ws.end = w.clone();
                applied = true;
            }
            _ => {}
        }
    }
    if slot == 5 {
        if v.trailing_semicolon {
            v.tail_ws = w.clone();
            applied = true;
        }
        else {
            // an empty-message prefix: white space then terminator in front of the message
            return Ok(());
        }
    }
    if !applied {
        return Ok(());
    }
    compare(env, base, &v)?;
    st.class(&format!("slot: {}", SLOTS[slot]));
    st.nontrivial(&(b, slot, byte, rep));
    Ok(())
}

fn main() {
    let mut h = Harness::from_args("C11");
    let spec = vrun::spec_of(fixture::fx::SPEC_JSON);
    let model = Model::build(&spec).expect("fx fixture is collision-free");
    let ix = Index::new(&model, true);
    h.assume("white space is varied only in the five places the statement lists (before a unit, between header and parameters, around commas, before ';' or the terminator); base messages are well-formed syntactically and may contain execution-type faults so that errors are compared as well");
    let n_bases = h.tier.pick(20, 80);
    let bases = fixed_bases(&model, &ix, n_bases);
    let total = bases.len() as u64 * 6 * 32 * 2;
    h.check(
        "c11.whitespace_exhaustive",
        &format!("{} fixed base messages (>= 2 units, a unit with >= 2 parameters, every fourth ending in ';') x 6 slot kinds x EVERY one of the 32 white-space byte values (0-9, 11-32) x 1 or 2 repetitions, the byte placed in that slot of every unit: observation through run (handlers+arguments, responses, errors) and through process::<1024> must equal the base; non-trivial = every applicable combination (distinct by base, slot, byte, count)", bases.len()),
        true,
        |h, st| {
            h.enum_search("c11.whitespace_exhaustive", total, st, |idx, st| {
                run_ws_case(&bases, idx, st).map_err(|e| (e, json!({ "index": idx, "bases": bases.len() })))?;
                if idx % 397 == 0 {
                    let (b, slot, byte, rep) = ws_case(&bases, idx);
                    st.sample(|| json!({ "base": esc(&bases[b].0.rendered()), "slot": SLOTS[slot], "byte": byte, "count": rep }));
                }
                Ok(())
            })
        },
        |case: &Value| {
            let n = case["bases"].as_u64().unwrap_or(20) as usize;
            let bases = fixed_bases(&model, &ix, n);
            run_ws_case(&bases, case["index"].as_u64().unwrap_or(0), &mut Stats::default())
        },
    );
    let cases = h.tier.pick(150_000, 8_000_000);
    h.check(
        "c11.random",
        "proptest tapes -> a base message of 1-4 units over the fx fixture (valid units and units with parameter-count, data-kind, range, boolean, undefined-header or handler faults) and 3 variants each: per mnemonic the other declared form (short<->long) where the tree has one, random case per letter, random white space (all 32 byte values) of length 0-4 in the five slots, CR LF; observations through run and process must be identical; non-trivial = variant differing in >= 2 kinds of variation or using a white-space byte other than blank/tab/CR",
        false,
        |h, st| h.tape_search("c11.random", cases, 260, st, |tape, st| random_prop(&model, &ix, tape, st)),
        |case| replay_tape(case, |tape, st| random_prop(&model, &ix, tape, st)),
    );
    h.finish();
}

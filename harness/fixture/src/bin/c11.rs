//! C11 - lexical variations allowed by IEEE 488.2 do not change the meaning.

use serde_json::{json, Value};
use vcore::ast::{show_log, Message, Unit, Ws};
use vcore::gen::{self, Env, FailSpec, GenCfg, Index, Item, WS_BYTES};
use vcore::runner::{esc, hash_of, replay_tape, Harness, Stats};
use vcore::spec::{Model, Target};
use vcore::tape::Tape;
use vrun::props::{gen_faulty_unit, Fault};

type Fx = fixture::fx::I<8>;

fn observe(env: &Env, stream: &[u8]) -> (Vec<Item>, String) {
    let out = vrun::run_rec::<Fx>(Some(env), &[], stream);
    (gen::items(&out.log), show_log(&out.log))
}

fn observe_process(env: &Env, stream: &[u8]) -> (Vec<vcore::ast::Ev>, Vec<u8>) {
    // a read schedule derived from the bytes themselves (single bytes, pairs, or everything at once):
    // variations that only show at a read boundary are then visible too
    let reads: Vec<usize> = match hash_of(stream) % 4 {
        0 => vec![],
        1 => vec![1; stream.len()],
        2 => vec![2; stream.len()],
        _ => (0..stream.len()).map(|i| 1 + (hash_of(&(stream, i)) % 5) as usize).collect(),
    };
    let po = vrun::process::<Fx, 1024>(Some(env), &[], stream, &reads, None);
    vrun::observation(&po.log, &[])
}

/// Base message: canonical spelling (upper case as chosen by the generator, single blanks, LF),
/// valid units plus execution-type faults.
fn gen_base(t: &mut Tape, model: &Model, ix: &Index, env: &mut Env) -> Message {
    let mut cfg = GenCfg::default();
    cfg.lexical = false;
    cfg.max_units = 4;
    cfg.lit.max_payload = 4;
    cfg.p_empty_message = 0;
    let failing: Vec<usize> = if t.chance(1, 3) {
        let id = t.below(model.spec.decls.len());
        env.fail[id] = Some(FailSpec::Custom(-(t.below(300) as i16) - 1, t.below(8)));
        vec![id]
    }
    else {
        vec![]
    };
    let n = t.range(1, 4);
    let mut units: Vec<Unit> = Vec::new();
    let mut ctx: Vec<String> = Vec::new();
    for _ in 0..n {
        let u = if t.chance(1, 5) {
            let fault = [Fault::Arity, Fault::Kind, Fault::Range, Fault::NotBool, Fault::UndefSoft, Fault::UndefHard][t.below(6)];
            match gen_faulty_unit(t, model, ix, &ctx, &cfg, fault, &failing) {
                Some((u, _)) => u,
                None => gen::gen_unit(t, ix, &ctx, &cfg),
            }
        }
        else {
            gen::gen_unit(t, ix, &ctx, &cfg)
        };
        if let Some(c) = model.resolve(&ctx, &u.header).new_ctx {
            ctx = c;
        }
        units.push(u);
    }
    let mut m = Message::new(units);
    m.trailing_semicolon = t.chance(1, 8);
    m
}

/// Other spellings (short/long form) of mnemonic `i` of `u` that select the same node.
fn alternatives(model: &Model, ctx: &[String], u: &Unit, i: usize) -> Vec<String> {
    let base = model.resolve(ctx, &u.header);
    let Some(target) = base.target else { return vec![] };
    let mut full: Vec<String> = if u.header.absolute || u.header.is_common() { vec![] } else { ctx.to_vec() };
    let offset = full.len();
    full.extend(u.header.mnems.iter().map(|m| m.to_ascii_uppercase()));
    let mut out = Vec::new();
    for ((path, query), tg) in &model.dict {
        if *tg == target && *query == u.header.query && path.len() == full.len() {
            let same_elsewhere = (0..path.len()).all(|k| k == offset + i || path[k] == full[k]);
            if same_elsewhere && path[offset + i] != full[offset + i] {
                out.push(path[offset + i].clone());
            }
        }
    }
    out
}

#[derive(Default)]
struct Kinds {
    case: bool,
    form: bool,
    ws: bool,
    crlf: bool,
    odd_ws: bool,
}

fn gen_variant(t: &mut Tape, model: &Model, base: &Message, kinds: &mut Kinds) -> Message {
    let mut v = base.clone();
    let mut ctx: Vec<String> = Vec::new();
    let mut vctx: Vec<String> = Vec::new();
    for (ui, u) in base.units.iter().enumerate() {
        let target = model.resolve(&ctx, &u.header).target;
        let mut nu = u.clone();
        if matches!(target, Some(Target::User(_)) | Some(Target::StdVersion) | Some(Target::ErrNext) | Some(Target::ErrCount)) {
            for i in 0..u.header.mnems.len() {
                if t.chance(1, 2) {
                    let alts = alternatives(model, &ctx, u, i);
                    if !alts.is_empty() {
                        let mut cand = nu.clone();
                        cand.header.mnems[i] = alts[t.below(alts.len())].clone();
                        if model.resolve(&vctx, &cand.header).target == target {
                            nu = cand;
                            kinds.form = true;
                        }
                    }
                }
            }
        }
        for m in nu.header.mnems.iter_mut() {
            let spelled = gen::spell(t, &m.to_ascii_uppercase(), true);
            if spelled != *m {
                kinds.case = true;
            }
            *m = spelled;
        }
        let ws = gen::gen_ws_slots(t, true);
        if ws != Ws::default() {
            kinds.ws = true;
            let all: Vec<u8> = [&ws.before[..], &ws.gap, &ws.before_comma, &ws.after_comma, &ws.end].concat();
            if all.iter().any(|b| !matches!(b, b' ' | b'\t' | b'\r')) {
                kinds.odd_ws = true;
            }
        }
        nu.ws = ws;
        if let Some(c) = model.resolve(&ctx, &u.header).new_ctx {
            ctx = c;
        }
        if let Some(c) = model.resolve(&vctx, &nu.header).new_ctx {
            vctx = c;
        }
        v.units[ui] = nu;
    }
    if v.trailing_semicolon || v.units.is_empty() {
        v.tail_ws = gen::gen_ws(t, true, 0);
    }
    v.crlf = t.chance(1, 2);
    kinds.crlf = v.crlf;
    v
}

fn compare(env: &Env, base: &Message, variant: &Message) -> Result<(), String> {
    let b = base.rendered();
    let v = variant.rendered();
    let (ob, lb) = observe(env, &b);
    let (ov, lv) = observe(env, &v);
    if ob != ov {
        return Err(format!(
            "base '{}' and its lexical variant '{}' behave differently: [{}] vs [{}]",
            esc(&b),
            esc(&v),
            lb,
            lv
        ));
    }
    if b.len() <= 1024 && v.len() <= 1024 {
        let pb = observe_process(env, &b);
        let pv = observe_process(env, &v);
        if pb != pv {
            return Err(format!(
                "through process, base '{}' and its lexical variant '{}' behave differently",
                esc(&b),
                esc(&v)
            ));
        }
    }
    Ok(())
}

fn random_prop(model: &Model, ix: &Index, tape: &[u32], st: &mut Stats) -> Result<(), String> {
    let mut t = Tape::new(tape);
    let mut env = Env::new(model, 8);
    let base = gen_base(&mut t, model, ix, &mut env);
    for _ in 0..3 {
        let mut kinds = Kinds::default();
        let variant = gen_variant(&mut t, model, &base, &mut kinds);
        compare(&env, &base, &variant)?;
        st.evals_add(1);
        let n = [kinds.case, kinds.form, kinds.ws, kinds.crlf].iter().filter(|b| **b).count();
        if kinds.form {
            st.class("short/long form exchanged");
        }
        if kinds.odd_ws {
            st.class("white space other than blank/tab/CR");
        }
        if kinds.crlf {
            st.class("CR LF terminator");
        }
        if n >= 2 || kinds.odd_ws {
            st.nontrivial(&variant.rendered());
        }
        st.sample(|| json!({ "base": esc(&base.rendered()), "variant": esc(&variant.rendered()) }));
    }
    Ok(())
}

/// Base messages for the exhaustive white-space part: deterministic tapes, at least two units, one
/// of them with two or more parameters, one message ending in ';'.
fn fixed_bases(model: &Model, ix: &Index, count: usize) -> Vec<(Message, Env)> {
    let mut out = Vec::new();
    let mut i = 0u64;
    while out.len() < count && i < 100_000 {
        let tape: Vec<u32> = (0..120).map(|k| (hash_of(&(i, k)) >> 16) as u32).collect();
        i += 1;
        let mut t = Tape::new(&tape);
        let mut env = Env::new(model, 8);
        let mut m = gen_base(&mut t, model, ix, &mut env);
        if m.units.len() < 2 || !m.units.iter().any(|u| u.args.len() >= 2) {
            continue;
        }
        m.trailing_semicolon = out.len() % 4 == 3;
        out.push((m, env));
    }
    out
}

const SLOTS: [&str; 6] = ["before unit", "header-parameter gap", "before comma", "after comma", "before ';'/terminator", "after trailing ';'"];

fn ws_case(bases: &[(Message, Env)], idx: u64) -> (usize, usize, u8, usize) {
    let nb = bases.len() as u64;
    let b = (idx % nb) as usize;
    let slot = ((idx / nb) % 6) as usize;
    let byte = WS_BYTES[((idx / nb / 6) % 32) as usize];
    let rep = 1 + (idx / nb / 6 / 32) as usize; // 1 or 2 bytes
    (b, slot, byte, rep)
}

fn run_ws_case(bases: &[(Message, Env)], idx: u64, st: &mut Stats) -> Result<(), String> {
    let (b, slot, byte, rep) = ws_case(bases, idx);
    let (base, env) = &bases[b];
    let mut v = base.clone();
    let w = vec![byte; rep];
    let mut applied = false;
    for u in v.units.iter_mut() {
        match slot {
            0 => {
                u.ws.before = w.clone();
                applied = true;
            }
            1 => {
                if !u.args.is_empty() {
                    u.ws.gap = w.clone();
                    applied = true;
                }
            }
            2 => {
                if u.args.len() >= 2 {
                    u.ws.before_comma = w.clone();
                    applied = true;
                }
            }
            3 => {
                if u.args.len() >= 2 {
                    u.ws.after_comma = w.clone();
                    applied = true;
                }
            }
            4 => {
                u.ws.end = w.clone();
                applied = true;
            }
            _ => {}
        }
    }
    if slot == 5 {
        if v.trailing_semicolon {
            v.tail_ws = w.clone();
            applied = true;
        }
        else {
            // an empty-message prefix: white space then terminator in front of the message
            return Ok(());
        }
    }
    if !applied {
        return Ok(());
    }
    compare(env, base, &v)?;
    st.class(&format!("slot: {}", SLOTS[slot]));
    st.nontrivial(&(b, slot, byte, rep));
    Ok(())
}

fn main() {
    let mut h = Harness::from_args("C11");
    let spec = vrun::spec_of(fixture::fx::SPEC_JSON);
    let model = Model::build(&spec).expect("fx fixture is collision-free");
    let ix = Index::new(&model, true);
    h.assume("white space is varied only in the five places the statement lists (before a unit, between header and parameters, around commas, before ';' or the terminator); base messages are well-formed syntactically and may contain execution-type faults so that errors are compared as well");
    let n_bases = h.tier.pick(20, 80);
    let bases = fixed_bases(&model, &ix, n_bases);
    let total = bases.len() as u64 * 6 * 32 * 2;
    h.check(
        "c11.whitespace_exhaustive",
        &format!("{} fixed base messages (>= 2 units, a unit with >= 2 parameters, every fourth ending in ';') x 6 slot kinds x EVERY one of the 32 white-space byte values (0-9, 11-32) x 1 or 2 repetitions, the byte placed in that slot of every unit: observation through run (handlers+arguments, responses, errors) and through process::<1024> must equal the base; non-trivial = every applicable combination (distinct by base, slot, byte, count)", bases.len()),
        true,
        |h, st| {
            h.enum_search("c11.whitespace_exhaustive", total, st, |idx, st| {
                run_ws_case(&bases, idx, st).map_err(|e| (e, json!({ "index": idx, "bases": bases.len() })))?;
                if idx % 397 == 0 {
                    let (b, slot, byte, rep) = ws_case(&bases, idx);
                    st.sample(|| json!({ "base": esc(&bases[b].0.rendered()), "slot": SLOTS[slot], "byte": byte, "count": rep }));
                }
                Ok(())
            })
        },
        |case: &Value| {
            let n = case["bases"].as_u64().unwrap_or(20) as usize;
            let bases = fixed_bases(&model, &ix, n);
            run_ws_case(&bases, case["index"].as_u64().unwrap_or(0), &mut Stats::default())
        },
    );
    let cases = h.tier.pick(150_000, 8_000_000);
    h.check(
        "c11.random",
        "proptest tapes -> a base message of 1-4 units over the fx fixture (valid units and units with parameter-count, data-kind, range, boolean, undefined-header or handler faults) and 3 variants each: per mnemonic the other declared form (short<->long) where the tree has one, random case per letter, random white space (all 32 byte values) of length 0-4 in the five slots, CR LF; observations through run and process must be identical; non-trivial = variant differing in >= 2 kinds of variation or using a white-space byte other than blank/tab/CR",
        false,
        |h, st| h.tape_search("c11.random", cases, 260, st, |tape, st| random_prop(&model, &ix, tape, st)),
        |case| replay_tape(case, |tape, st| random_prop(&model, &ix, tape, st)),
    );
    h.finish();
}

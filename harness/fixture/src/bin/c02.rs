//! C02 - header path context follows the SCPI compound-message rules (fixture part).

use fixture::{with_fn, WITH_FN_VALUES};
use vcore::gen::{Env, Index};
use vcore::runner::{replay_tape, Harness};
use vcore::spec::Model;
use vrun::props::{c02_prop, Exec};
use vrun::ProcOut;

type Fx = fixture::fx::I<8>;

fn proc_fx<const N: usize>(env: Option<&Env>, pauses: &[u8], stream: &[u8], reads: &[usize]) -> ProcOut {
    vrun::process::<Fx, N>(env, pauses, stream, reads, None)
}

fn main() {
    let mut h = Harness::from_args("C02");
    let spec = vrun::spec_of(fixture::fx::SPEC_JSON);
    let model = Model::build(&spec).expect("fx fixture is collision-free");
    let ix = Index::new(&model, true);
    let run_rec = |env: &Env, pauses: &[u8], input: &[u8]| vrun::run_rec::<Fx>(Some(env), pauses, input);
    let process = |env: &Env, n: usize, pauses: &[u8], stream: &[u8], reads: &[usize]| {
        with_fn!(n, proc_fx, Some(env), pauses, stream, reads)
    };
    let ex = Exec {
        run_rec: &run_rec,
        process: &process,
        sizes: WITH_FN_VALUES,
        qcap: 8,
    };
    h.assume("after a unit with an undefined header the rest of that message may be executed or dropped (both accepted)");
    let cases = h.tier.pick(300_000, 3_000_000);
    h.check(
        "c02.fixture",
        "proptest tapes -> 1-4 messages of 1-5 units over the fx fixture (A exists at the root, under SYSTem, under SYSTem:SUB and under [SENSe]:VOLTage; optional nodes; common commands; sync and async handlers with Pending scripts): units drawn relative to the model's current path (relative valid, absolute incl. single-mnemonic, common, context-mismatched), messages ending in ';', empty messages; the whole buffer through run (recording writer) and through process must match the reference interpreter event for event (handler, arguments, responses in unit order, -113 where the model says so), each message predicted from the root path; a handler must finish before anything else is observed; non-trivial = a relative unit that resolves differently from its context than from the root, or a message following one that ended in ';' or was empty",
        false,
        |h, st| h.tape_search("c02.fixture", cases, 260, st, |tape, st| c02_prop(&model, &ix, &ex, tape, st)),
        |case| replay_tape(case, |tape, st| c02_prop(&model, &ix, &ex, tape, st)),
    );
    h.finish();
}

//! C04 - responses are complete, well-formed and decode to the returned value.

use serde_json::json;
use vcore::ast::{show_log, Ev};
use vcore::decode::check_response;
use vcore::gen::{self, Env, FailSpec, Item};
use vcore::rval::RVal;
use vcore::runner::{esc, replay_tape, Harness, Stats};
use vcore::spec::{parse_cmd, Model, RetTy, Ty};
use vcore::tape::Tape;
use vcore::vals::{gen_value, is_nontrivial};

type TyI = fixture::ty::I<8>;

fn long_header(cmd: &str) -> String {
    let (nodes, q) = parse_cmd(cmd);
    let mut s = nodes.iter().map(|n| n.long()).collect::<Vec<_>>().join(":");
    if q {
        s.push('?');
    }
    s
}

fn response_len_hint(v: &RVal) -> usize {
    match v {
        RVal::Bytes(b) => b.len() + 16,
        RVal::Str(s) => 2 * s.len() + 8,
        RVal::List(l) => l.iter().map(response_len_hint).sum::<usize>() + 8,
        RVal::F64s(l) => l.len() * 400,
        RVal::F32(_) | RVal::F64(_) => 400,
        RVal::I32s(l) => l.len() * 12,
        RVal::U8s(l) => l.len() * 4,
        RVal::Bools(l) => l.len() * 2,
        _ => 48,
    }
}

/// One query, one value, four writers.
fn value_prop(model: &Model, queries: &[usize], tape: &[u32], st: &mut Stats) -> Result<(), String> {
    let mut t = Tape::new(tape);
    let id = queries[t.below(queries.len())];
    let d = &model.spec.decls[id];
    let mut env = Env::new(model, 8);
    let v = gen_value(&mut t, &d.ret);
    env.rets[id] = v.clone();
    let mut msg = long_header(&d.cmd).into_bytes();
    if !d.params.is_empty() {
        msg.push(b' ');
        let args = gen::gen_args(&mut t, &d.params, &Default::default());
        for (i, a) in args.iter().enumerate() {
            if i > 0 {
                msg.push(b',');
            }
            a.render(&mut msg);
        }
    }
    msg.push(b'\n');
    let np = t.below(3);
    let pauses: Vec<u8> = (0..np).map(|_| t.below(3) as u8).collect();

    // (1) pass-through recording writer: exactly payload, newline, one flush
    let out = vrun::run_rec::<TyI>(Some(&env), &pauses, &msg);
    let its = gen::items(&out.log);
    let ctx = |e: String| format!("{} [query {} value {:?} log: {}]", e, esc(&msg), v, show_log(&out.log));
    let resp = match its.as_slice() {
        [Item::H { id: hid, .. }, Item::R(bytes)] if *hid == id => bytes.clone(),
        other => return Err(ctx(format!("expected one handler invocation and one flushed response, observed {:?}", other))),
    };
    if resp.last() != Some(&b'\n') {
        return Err(ctx("response does not end with a newline".into()));
    }
    // (the response item above already requires: bytes, then a flush, nothing after it)
    check_response(&d.ret, &v, &resp[..resp.len() - 1]).map_err(|e| ctx(format!("response '{}': {}", esc(&resp), e)))?;

    // (2) heapless::Vec with room, (3) std Vec, (4) through process: identical bytes
    let h = vrun::run_heapless::<TyI, 8192>(Some(&env), &pauses, &msg);
    if h.out != resp || h.log.iter().any(|e| matches!(e, Ev::Error { .. })) {
        return Err(ctx(format!("heapless::Vec<u8,8192> received '{}' instead of '{}'", esc(&h.out), esc(&resp))));
    }
    let s = vrun::run_stdvec::<TyI>(Some(&env), &pauses, &msg);
    if s.out != resp || s.log.iter().any(|e| matches!(e, Ev::Error { .. })) {
        return Err(ctx(format!("std Vec<u8> received '{}' instead of '{}'", esc(&s.out), esc(&resp))));
    }
    if resp.len() <= 4096 {
        let po = vrun::process::<TyI, 4096>(Some(&env), &pauses, &msg, &[], None);
        let (_, written) = vrun::observation(&po.log, &[]);
        if written != resp {
            return Err(ctx(format!("process wrote '{}' instead of '{}'", esc(&written), esc(&resp))));
        }
        let last_write = po.log.iter().rposition(|e| matches!(e, Ev::AWrite(_)));
        let last_flush = po.log.iter().rposition(|e| matches!(e, Ev::AFlush));
        if last_flush.is_none() || last_flush < last_write {
            return Err(ctx("process did not flush the transport after writing the response".into()));
        }
    }
    else {
        st.class("response larger than the process buffer (process skipped)");
    }
    // two copies of the message in ONE read through a small buffer: each response has room on its own
    if resp.len() <= 64 && msg.len() * 2 <= 64 {
        let twice = [msg.clone(), msg.clone()].concat();
        let po = vrun::process::<TyI, 64>(Some(&env), &pauses, &twice, &[], None);
        let (_, written) = vrun::observation(&po.log, &[]);
        let want = [resp.clone(), resp.clone()].concat();
        if written != want {
            return Err(ctx(format!(
                "process::<64> fed '{}' in one read wrote '{}' instead of '{}'",
                esc(&twice),
                esc(&written),
                esc(&want)
            )));
        }
        if resp.len() * 2 > 64 {
            st.class("two answers in one read that only fit the buffer one at a time");
        }
    }
    let _ = response_len_hint;
    st.class(&format!("type {}", d.cmd));
    if is_nontrivial(&d.ret, &v) {
        st.nontrivial(&(id, format!("{:?}", v)));
    }
    st.sample(|| json!({ "query": esc(&msg), "response": esc(&resp[..resp.len().min(120)]) }));
    Ok(())
}

#[derive(Debug)]
enum UnitPlan {
    /// successful query: must answer with this value
    Query(usize, RVal),
    /// command, failing handler, rejected argument, arity error, undefined header: no output
    Silent(&'static str),
}

/// Messages mixing answering and silent units: output only for successful queries, in order.
fn message_prop(model: &Model, queries: &[usize], tape: &[u32], st: &mut Stats) -> Result<(), String> {
    let mut t = Tape::new(tape);
    let mut env = Env::new(model, 8);
    let n_units = t.range(1, 4);
    let mut plans: Vec<UnitPlan> = Vec::new();
    let mut msg: Vec<u8> = Vec::new();
    let noarg_queries: Vec<usize> = queries.iter().copied().filter(|i| model.spec.decls[*i].params.is_empty()).collect();
    let commands: Vec<usize> = (0..model.spec.decls.len())
        .filter(|i| !model.spec.decls[*i].is_query() && model.spec.decls[*i].params.len() <= 1)
        .collect();
    let mut used: Vec<usize> = Vec::new();
    for ui in 0..n_units {
        if ui > 0 {
            msg.push(b';');
        }
        msg.push(b':');
        match t.weighted(&[5, 2, 2, 2, 1, 1, 2]) {
            0 => {
                // each query at most once per message (its return value is per declaration)
                let avail: Vec<usize> = noarg_queries.iter().copied().filter(|i| !used.contains(i)).collect();
                let id = avail[t.below(avail.len())];
                used.push(id);
                let v = gen_value(&mut t, &model.spec.decls[id].ret);
                env.rets[id] = v.clone();
                msg.extend_from_slice(long_header(&model.spec.decls[id].cmd).as_bytes());
                plans.push(UnitPlan::Query(id, v));
            }
            1 => {
                let id = commands[t.below(commands.len())];
                let d = &model.spec.decls[id];
                msg.extend_from_slice(long_header(&d.cmd).as_bytes());
                if !d.params.is_empty() {
                    msg.push(b' ');
                    gen::gen_args(&mut t, &d.params, &Default::default())[0].render(&mut msg);
                }
                plans.push(UnitPlan::Silent("command"));
            }
            2 => {
                let avail: Vec<usize> = noarg_queries.iter().copied().filter(|i| !used.contains(i)).collect();
                let id = avail[t.below(avail.len())];
                used.push(id);
                env.fail[id] = Some(FailSpec::Custom(-(t.below(400) as i16) - 1, t.below(8)));
                msg.extend_from_slice(long_header(&model.spec.decls[id].cmd).as_bytes());
                plans.push(UnitPlan::Silent("failing handler"));
            }
            3 => {
                // ARG:QONE? wants a u32
                msg.extend_from_slice(b"ARG:QONE? ");
                msg.extend_from_slice([&b"'x'"[..], b"-1", b"4294967296", b"#15hello", b"ON"][t.below(5)]);
                plans.push(UnitPlan::Silent("rejected argument"));
            }
            4 => {
                msg.extend_from_slice(b"RET:UBYTE? 1");
                plans.push(UnitPlan::Silent("parameter count"));
            }
            5 => {
                // query on a command-only node: undefined header found at execution
                msg.extend_from_slice(b"RET:NONE?");
                plans.push(UnitPlan::Silent("undefined header"));
            }
            _ => {
                // a command whose payload contains a newline: through process the message is executed
                // piecewise, answers already sent must not be sent again
                if t.chance(1, 2) {
                    msg.extend_from_slice(b"ARG:STRING 'a\nb'");
                }
                else {
                    msg.extend_from_slice(b"ARG:BLOCK #13x\ny");
                }
                plans.push(UnitPlan::Silent("command with a newline in its payload"));
            }
        }
    }
    msg.push(b'\n');
    let out = vrun::run_rec::<TyI>(Some(&env), &[], &msg);
    let its = gen::items(&out.log);
    let ctx = |e: String| format!("{} [message '{}' plan {:?} log: {}]", e, esc(&msg), plans, show_log(&out.log));
    let responses: Vec<&Vec<u8>> = its
        .iter()
        .filter_map(|i| match i {
            Item::R(b) => Some(b),
            _ => None,
        })
        .collect();
    if its.iter().any(|i| matches!(i, Item::Unflushed(_))) {
        return Err(ctx("bytes were written without a following flush".into()));
    }
    let expected: Vec<(&usize, &RVal)> = plans
        .iter()
        .filter_map(|p| match p {
            UnitPlan::Query(id, v) => Some((id, v)),
            _ => None,
        })
        .collect();
    if responses.len() != expected.len() {
        return Err(ctx(format!("{} responses for {} successful queries", responses.len(), expected.len())));
    }
    let mut whole = Vec::new();
    for (r, (id, v)) in responses.iter().zip(&expected) {
        if r.last() != Some(&b'\n') {
            return Err(ctx("response does not end with a newline".into()));
        }
        check_response(&model.spec.decls[**id].ret, v, &r[..r.len() - 1]).map_err(|e| ctx(format!("response '{}': {}", esc(r), e)))?;
        whole.extend_from_slice(r);
    }
    // order: response k must come after handler k and before the next handler
    let mut qi = 0;
    let mut pending: Option<usize> = None;
    for it in &its {
        match it {
            Item::H { id, .. } => {
                if pending.is_some() {
                    return Err(ctx("a handler ran before the previous response was flushed".into()));
                }
                if let Some((eid, _)) = expected.get(qi) {
                    if *eid == id {
                        pending = Some(qi);
                    }
                }
            }
            Item::R(_) => {
                if pending.take().is_none() {
                    return Err(ctx("a response appeared that does not follow its query's handler".into()));
                }
                qi += 1;
            }
            Item::E { .. } => {
                pending = None;
            }
            _ => {}
        }
    }
    // same bytes through a buffer writer and through process
    if whole.len() <= 4096 {
        let h = vrun::run_heapless::<TyI, 8192>(Some(&env), &[], &msg);
        if h.out != whole {
            return Err(ctx(format!("heapless::Vec received '{}' instead of '{}'", esc(&h.out), esc(&whole))));
        }
        let po = vrun::process::<TyI, 4096>(Some(&env), &[], &msg, &[], None);
        let (_, written) = vrun::observation(&po.log, &[]);
        if written != whole {
            return Err(ctx(format!("process wrote '{}' instead of '{}'", esc(&written), esc(&whole))));
        }
    }
    for p in &plans {
        match p {
            UnitPlan::Silent(k) => st.class(&format!("silent unit: {}", k)),
            UnitPlan::Query(..) => st.class("answering unit"),
        }
    }
    if plans.iter().any(|p| matches!(p, UnitPlan::Silent(_))) && !expected.is_empty() {
        st.nontrivial(&msg);
    }
    st.sample(|| json!({ "message": esc(&msg[..msg.len().min(200)]) }));
    Ok(())
}

fn main() {
    let mut h = Harness::from_args("C04");
    let spec = vrun::spec_of(fixture::ty::SPEC_JSON);
    let model = Model::build(&spec).expect("ty fixture is collision-free");
    let queries: Vec<usize> = (0..model.spec.decls.len())
        .filter(|i| model.spec.decls[*i].is_query() && model.spec.decls[*i].ret != RetTy::None)
        .collect();
    let _ = Ty::U8;
    h.assume("decoding = the independent type-directed decoder of the harness (NR1/NRf numbers judged by exact rational arithmetic, strings with doubled quotes, definite-length blocks, bare character data, comma-separated composites)");
    h.assume("queries returning () are not generated (the statement calls value-less handlers commands)");
    let cases = h.tier.pick(300_000, 12_000_000);
    h.check(
        "c04.values",
        "proptest tapes -> one query of the ty fixture (every integer width, f32/f64 from random bit patterns incl. NaN/inf/subnormal/-0, bool, &str / heapless::String / String with arbitrary UTF-8 weighted towards quotes and separators, Arbitrary blocks of length 0..3000 incl. 9/10/99/100/999/1000, Characters, Error, tuples of arity 2-4 incl. nested, heapless::Vec and slices of those) with a generated return value -> pass-through writer must see exactly: bytes that decode completely to the value, newline, one flush; heapless::Vec<u8,8192>, std Vec<u8> and process::<4096> must receive identical bytes; non-trivial = type extreme, non-finite/subnormal/zero float, string with quote/separator/newline, block at a digit-count boundary, composite",
        false,
        |h, st| h.tape_search("c04.values", cases, 120, st, |tape, st| value_prop(&model, &queries, tape, st)),
        |case| replay_tape(case, |tape, st| value_prop(&model, &queries, tape, st)),
    );
    let cases = h.tier.pick(150_000, 1_500_000);
    h.check(
        "c04.messages",
        "proptest tapes -> messages of 1-4 absolute units mixing answering queries with commands, failing handlers, rejected arguments, wrong parameter counts and undefined headers: exactly one flushed, decodable response per successful query, in execution order, each after its handler and before the next one; nothing for the other units; same bytes through heapless::Vec and process; non-trivial = message with at least one silent and one answering unit",
        false,
        |h, st| h.tape_search("c04.messages", cases, 200, st, |tape, st| message_prop(&model, &queries, tape, st)),
        |case| replay_tape(case, |tape, st| message_prop(&model, &queries, tape, st)),
    );
    h.finish();
}

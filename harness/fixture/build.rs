use std::fmt::Write;

fn dispatch(name: &str, values: &[usize]) -> String {
    // macro `name!(n, f, args...)` => match n { V => f::<V>(args...), ... }
    let mut s = String::new();
    writeln!(s, "#[macro_export]\nmacro_rules! {} {{", name).unwrap();
    writeln!(s, "    ($n:expr, $f:ident, $($a:expr),*) => {{ match $n {{").unwrap();
    for v in values {
        writeln!(s, "        {} => $f::<{}>($($a),*),", v, v).unwrap();
    }
    writeln!(s, "        other => panic!(\"harness: size {{}} is not instantiated\", other),").unwrap();
    writeln!(s, "    }} }};\n}}").unwrap();
    let list: Vec<String> = values.iter().map(|v| v.to_string()).collect();
    writeln!(s, "pub const {}_VALUES: &[usize] = &[{}];", name.to_uppercase(), list.join(", ")).unwrap();
    s
}

fn main() {
    let out = std::env::var("OUT_DIR").unwrap();
    let mut src = String::new();
    for spec in [vcore::fixtures::mini(), vcore::fixtures::fx(), vcore::fixtures::ty()] {
        vcore::spec::Model::build(&spec).expect("fixture must be collision-free");
        src.push_str(&vcore::codegen::emit_module(&spec));
    }
    std::fs::write(format!("{}/generated.rs", out), src).unwrap();

    let mut n_values: Vec<usize> = (1..=64).collect();
    n_values.extend([65, 100, 128, 255, 256, 1000, 4096]);
    let cap_values: Vec<usize> = (0..=64).collect();
    let mut d = String::new();
    d.push_str(&dispatch("with_n", &n_values));
    d.push_str(&dispatch("with_cap", &cap_values));
    // buffer sizes instantiated for the large fixture
    d.push_str(&dispatch("with_fn", &[8, 16, 24, 32, 48, 64, 96, 128, 192, 256, 512, 1024, 4096]));
    std::fs::write(format!("{}/dispatch.rs", out), d).unwrap();
    println!("cargo:rerun-if-changed=build.rs");
}

//! Reference semantics of program-data literals (what a handler parameter of a given type must
//! receive, or how the literal must be rejected) and tape-driven literal generators.

use crate::ast::{ArgVal, Lit};
use crate::bignum::{check_f32, check_f64, parse_decimal, Decimal, Rounding};
use crate::spec::Ty;
use crate::tape::Tape;

pub const E_DATA_TYPE: i16 = -104;
pub const E_NUMERIC: i16 = -120;
pub const E_ILLEGAL_PARAM: i16 = -224;

#[derive(Clone, Debug)]
pub enum Want {
    Int(i128),
    /// the correctly rounded value of this decimal literal
    Float(Decimal),
    /// this exact integer as a float (non-decimal literal given to a float parameter)
    FloatOfInt(u128),
    Bool(bool),
    Str(Vec<u8>),
    Bytes(Vec<u8>),
}

#[derive(Clone, Debug)]
pub enum Expect {
    /// the handler must receive exactly this value
    Value(Want),
    /// the literal must be rejected with one of these error numbers, the handler not invoked
    Reject(&'static [i16]),
    /// the statement leaves both open: rejection with one of the numbers, or delivery of the
    /// mathematically exact value - never anything else
    Either(Want, &'static [i16]),
}

impl Expect {
    pub fn class(&self) -> &'static str {
        match self {
            Expect::Value(_) => "value",
            Expect::Reject(_) => "reject",
            Expect::Either(..) => "lenient",
        }
    }
}

fn nondec_value(radix: u32, digits: &str) -> Option<u128> {
    let d = digits.trim_start_matches('0');
    if d.is_empty() {
        return Some(0);
    }
    let mut v: u128 = 0;
    for c in d.chars() {
        let dv = c.to_digit(radix)? as u128;
        v = v.checked_mul(radix as u128)?.checked_add(dv)?;
    }
    Some(v)
}

/// What the declared parameter type `ty` must make of literal `lit` (property C03).
pub fn expect(lit: &Lit, ty: Ty) -> Expect {
    use Expect::*;
    if ty.is_int() {
        let (lo, hi) = ty.int_bounds();
        return match lit {
            Lit::Dec(s) => {
                let Some(d) = parse_decimal(s) else { return Reject(&[E_NUMERIC]) };
                let plain = !d.has_point && !d.has_exp;
                match d.as_integer() {
                    Some(v) if v >= lo && v <= hi => {
                        if plain && !(d.neg && v == 0 && lo == 0) {
                            Value(Want::Int(v))
                        }
                        else {
                            // `1.0`, `1e1` into an integer, `-0` into an unsigned one
                            Either(Want::Int(v), &[E_NUMERIC])
                        }
                    }
                    _ => Reject(&[E_NUMERIC]),
                }
            }
            Lit::NonDec { radix, digits, .. } => match nondec_value(*radix, digits) {
                Some(v) if v <= hi as u128 => Value(Want::Int(v as i128)),
                _ => Reject(&[E_NUMERIC]),
            },
            _ => Reject(&[E_DATA_TYPE]),
        };
    }
    match ty {
        Ty::F32 | Ty::F64 => match lit {
            Lit::Dec(s) => {
                let Some(d) = parse_decimal(s) else { return Reject(&[E_NUMERIC]) };
                // overflow to infinity may also be refused as "not representable"
                let inf_ok = match ty {
                    Ty::F32 => check_f32(&d, if d.neg { 0xff80_0000 } else { 0x7f80_0000 }),
                    _ => check_f64(&d, if d.neg { 0xfff0_0000_0000_0000 } else { 0x7ff0_0000_0000_0000 }),
                };
                if inf_ok != Rounding::Wrong {
                    Either(Want::Float(d), &[E_NUMERIC])
                }
                else {
                    Value(Want::Float(d))
                }
            }
            Lit::NonDec { radix, digits, .. } => match nondec_value(*radix, digits) {
                Some(v) => Either(Want::FloatOfInt(v), &[E_DATA_TYPE, E_NUMERIC]),
                None => Reject(&[E_DATA_TYPE, E_NUMERIC]),
            },
            _ => Reject(&[E_DATA_TYPE]),
        },
        Ty::Bool => match lit {
            Lit::Chars(s) => {
                let upper = s.to_ascii_uppercase();
                let exact_case = *s == upper || *s == s.to_ascii_lowercase();
                match upper.as_str() {
                    "ON" | "OFF" => {
                        let v = upper == "ON";
                        if exact_case {
                            Value(Want::Bool(v))
                        }
                        else {
                            Either(Want::Bool(v), &[E_ILLEGAL_PARAM])
                        }
                    }
                    "TRUE" | "FALSE" => Either(Want::Bool(upper == "TRUE"), &[E_ILLEGAL_PARAM]),
                    _ => Reject(&[E_ILLEGAL_PARAM]),
                }
            }
            Lit::Dec(s) => {
                if s == "1" || s == "0" {
                    return Value(Want::Bool(s == "1"));
                }
                match parse_decimal(s).and_then(|d| d.as_integer().map(|v| (d, v))) {
                    // another spelling of exactly 0 or 1 (`01`, `+1`, `1.0`, `1e0`)
                    Some((d, v)) if (v == 0 || v == 1) && !(d.neg && v == 1) => {
                        Either(Want::Bool(v == 1), &[E_ILLEGAL_PARAM, E_NUMERIC])
                    }
                    _ => Reject(&[E_ILLEGAL_PARAM, E_NUMERIC]),
                }
            }
            _ => Reject(&[E_DATA_TYPE, E_ILLEGAL_PARAM]),
        },
        Ty::Str => match lit {
            Lit::Str { body, .. } => Value(Want::Str(body.clone())),
            _ => Reject(&[E_DATA_TYPE]),
        },
        Ty::Bytes => match lit {
            Lit::Block { body, .. } => Value(Want::Bytes(body.clone())),
            _ => Reject(&[E_DATA_TYPE]),
        },
        _ => unreachable!(),
    }
}

/// Does the received argument equal the wanted value exactly?
pub fn satisfies(want: &Want, got: &ArgVal) -> bool {
    match (want, got) {
        (Want::Int(v), ArgVal::Int(g)) => v == g,
        (Want::Bool(v), ArgVal::Bool(g)) => v == g,
        (Want::Str(v), ArgVal::Str(g)) => v == g,
        (Want::Bytes(v), ArgVal::Bytes(g)) => v == g,
        (Want::Float(d), ArgVal::F32(bits)) => match check_f32(d, *bits) {
            Rounding::Correct => true,
            Rounding::Wrong => false,
            Rounding::Unknown => !f32::from_bits(*bits).is_nan(),
        },
        (Want::Float(d), ArgVal::F64(bits)) => match check_f64(d, *bits) {
            Rounding::Correct => true,
            Rounding::Wrong => false,
            Rounding::Unknown => !f64::from_bits(*bits).is_nan(),
        },
        (Want::FloatOfInt(v), ArgVal::F32(bits)) => {
            let d = parse_decimal(&v.to_string()).unwrap();
            check_f32(&d, *bits) == Rounding::Correct
        }
        (Want::FloatOfInt(v), ArgVal::F64(bits)) => {
            let d = parse_decimal(&v.to_string()).unwrap();
            check_f64(&d, *bits) == Rounding::Correct
        }
        _ => false,
    }
}

// -------------------------------------------------------------------------------------------------
// Generators
// -------------------------------------------------------------------------------------------------

/// Options for payload generation.
#[derive(Clone, Copy, Debug)]
pub struct LitCfg {
    /// allow `\n` inside string and block payloads
    pub newlines: bool,
    /// weight payload bytes towards separators
    pub specials: bool,
    pub max_payload: usize,
}

impl Default for LitCfg {
    fn default() -> Self {
        LitCfg {
            newlines: false,
            specials: true,
            max_payload: 12,
        }
    }
}

const SPECIALS: &[u8] = b";,:#'\" ?*";
const MULTI: &[&str] = &["\u{e9}", "\u{20ac}", "\u{1f600}", "\u{df}", "\u{4e2d}"];

pub fn gen_string_body(t: &mut Tape, quote: u8, cfg: &LitCfg) -> Vec<u8> {
    let len = match t.weighted(&[3, 4, 2, 1]) {
        0 => t.below(3),
        1 => t.range(1, 6),
        2 => t.range(3, cfg.max_payload.max(3)),
        _ => t.range(0, cfg.max_payload * 3),
    };
    let mut body = Vec::new();
    for _ in 0..len {
        match t.weighted(&[5, if cfg.specials { 4 } else { 1 }, if cfg.newlines { 3 } else { 0 }, 1, 1]) {
            0 => body.push(b"abcXYZ019_"[t.below(10)]),
            1 => {
                let c = SPECIALS[t.below(SPECIALS.len())];
                if c != quote {
                    body.push(c);
                }
                else {
                    body.push(if quote == b'\'' { b'"' } else { b'\'' });
                }
            }
            2 => body.push(b'\n'),
            3 => body.extend_from_slice(MULTI[t.below(MULTI.len())].as_bytes()),
            _ => {
                // any other ASCII byte except the quote (control characters included)
                let c = t.below(128) as u8;
                if c != quote && (cfg.newlines || c != b'\n') {
                    body.push(c);
                }
            }
        }
    }
    body
}

pub fn gen_block_body(t: &mut Tape, cfg: &LitCfg) -> Vec<u8> {
    let len = match t.weighted(&[30, 40, 20, 10, if cfg.max_payload >= 8 { 2 } else { 0 }]) {
        0 => t.below(3),
        1 => t.range(1, 6),
        2 => t.range(3, cfg.max_payload.max(3)),
        3 => t.range(0, cfg.max_payload * 3),
        // lengths with three and four digits (beyond one-byte counters)
        _ => [255usize, 256, 257, 300, 999, 1000, 1023][t.below(7)],
    };
    let mut body = Vec::new();
    for _ in 0..len {
        match t.weighted(&[3, if cfg.specials { 4 } else { 1 }, if cfg.newlines { 3 } else { 0 }, 3]) {
            0 => body.push(b"abcXYZ019_"[t.below(10)]),
            1 => body.push(SPECIALS[t.below(SPECIALS.len())]),
            2 => body.push(b'\n'),
            _ => {
                let c = t.byte();
                if cfg.newlines || c != b'\n' {
                    body.push(c);
                }
            }
        }
    }
    body
}

pub fn gen_block(t: &mut Tape, cfg: &LitCfg) -> Lit {
    let body = gen_block_body(t, cfg);
    let need = body.len().to_string().len();
    let ndig = if t.chance(1, 4) { t.range(need, 9) } else { need };
    Lit::Block { ndig, body }
}

pub fn gen_string(t: &mut Tape, cfg: &LitCfg) -> Lit {
    let quote = if t.chance(1, 2) { b'"' } else { b'\'' };
    let body = gen_string_body(t, quote, cfg);
    Lit::Str { quote, body }
}

fn to_radix(mut v: u128, radix: u32, upper: bool) -> String {
    if v == 0 {
        return "0".into();
    }
    let mut s = Vec::new();
    while v > 0 {
        let d = (v % radix as u128) as u32;
        let c = std::char::from_digit(d, radix).unwrap();
        s.push(if upper { c.to_ascii_uppercase() } else { c });
        v /= radix as u128;
    }
    s.iter().rev().collect()
}

/// Spells the non-negative integer `v` in a non-decimal radix.
pub fn nondec_lit(t: &mut Tape, v: u128, radix: u32) -> Lit {
    let prefix = match radix {
        16 => [b'H', b'h'],
        8 => [b'Q', b'q'],
        _ => [b'B', b'b'],
    }[t.below(2)];
    let mut digits = to_radix(v, radix, t.chance(1, 2));
    if t.chance(1, 5) {
        digits = format!("{}{}", "0".repeat(t.range(1, 3)), digits);
    }
    Lit::NonDec { radix, prefix, digits }
}

/// Spells integer `v` as a plain decimal (optional `+`, optional leading zeros).
pub fn int_dec_lit(t: &mut Tape, v: i128) -> Lit {
    let mut s = String::new();
    if v < 0 {
        s.push('-');
    }
    else if t.chance(1, 6) {
        s.push('+');
    }
    if t.chance(1, 8) {
        s.push_str(&"0".repeat(t.range(1, 3)));
    }
    s.push_str(&v.unsigned_abs().to_string());
    Lit::Dec(s)
}

/// A decimal real spelling: sign?, integer digits, optional point and fraction, optional exponent.
pub fn gen_decimal_text(t: &mut Tape, max_int: usize, max_frac: usize, max_exp: usize) -> String {
    let mut s = String::new();
    match t.weighted(&[3, 2, 1]) {
        1 => s.push('-'),
        2 => s.push('+'),
        _ => {}
    }
    let int_len = t.below(max_int + 1);
    let frac_len = if int_len == 0 { t.range(1, max_frac.max(1)) } else { t.below(max_frac + 1) };
    for i in 0..int_len {
        let c = if i == 0 && int_len > 1 && !t.chance(1, 8) { t.range(1, 9) } else { t.below(10) };
        s.push((b'0' + c as u8) as char);
    }
    if frac_len > 0 || t.chance(1, 6) {
        s.push('.');
        for _ in 0..frac_len {
            s.push((b'0' + t.below(10) as u8) as char);
        }
    }
    if max_exp > 0 && t.chance(1, 3) {
        s.push(if t.chance(1, 2) { 'E' } else { 'e' });
        match t.weighted(&[2, 2, 1]) {
            1 => s.push('-'),
            2 => s.push('+'),
            _ => {}
        }
        let e = t.below(max_exp + 1);
        if t.chance(1, 6) {
            s.push('0');
        }
        s.push_str(&e.to_string());
    }
    s
}

/// A literal that the declared type accepts (expect() == Value), for general message generation.
pub fn gen_fitting(t: &mut Tape, ty: Ty, cfg: &LitCfg) -> Lit {
    if ty.is_int() {
        let (lo, hi) = ty.int_bounds();
        let v: i128 = match t.weighted(&[5, 2, 1, 1]) {
            0 => (t.below(100) as i128).min(hi),
            1 => {
                let span = (hi - lo) as u128;
                lo + (t.u64() as u128 * (span / (u64::MAX as u128)).max(1)).min(span) as i128
            }
            2 => hi - t.below(3) as i128,
            _ => lo + t.below(3) as i128,
        };
        let v = v.clamp(lo, hi);
        if v >= 0 && t.chance(1, 4) {
            let radix = [16, 8, 2][t.below(3)];
            return nondec_lit(t, v as u128, radix);
        }
        if v == 0 {
            return Lit::Dec(if t.chance(1, 6) { "+0".into() } else { "0".into() });
        }
        return int_dec_lit(t, v);
    }
    match ty {
        Ty::F32 | Ty::F64 => Lit::Dec(gen_decimal_text(t, 6, 6, 20)),
        Ty::Bool => Lit::from_bool_spelling(t.below(6)),
        Ty::Str => gen_string(t, cfg),
        Ty::Bytes => gen_block(t, cfg),
        _ => unreachable!(),
    }
}

impl Lit {
    pub fn from_bool_spelling(i: usize) -> Lit {
        match i {
            0 => Lit::Dec("1".into()),
            1 => Lit::Dec("0".into()),
            2 => Lit::Chars("ON".into()),
            3 => Lit::Chars("OFF".into()),
            4 => Lit::Chars("on".into()),
            _ => Lit::Chars("off".into()),
        }
    }
}

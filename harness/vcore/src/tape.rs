//! Choice tape: every generated case is a pure function of a `Vec<u32>`.
//!
//! proptest generates (and shrinks) the tape; an interpreter turns the tape into a well-formed
//! case. All mappings are monotone (`v * n >> 32`), so shrinking a number towards 0 moves towards the
//! first ("simplest") alternative, and an exhausted tape yields 0 for every further choice.

pub struct Tape<'a> {
    data: &'a [u32],
    pos: usize,
}

impl<'a> Tape<'a> {
    pub fn new(data: &'a [u32]) -> Self {
        Tape { data, pos: 0 }
    }

    pub fn used(&self) -> usize {
        self.pos
    }

    pub fn exhausted(&self) -> bool {
        self.pos >= self.data.len()
    }

    pub fn raw(&mut self) -> u32 {
        let v = self.data.get(self.pos).copied().unwrap_or(0);
        self.pos += 1;
        v
    }

    /// Uniform in `0..n` (0 for n <= 1, without consuming).
    pub fn below(&mut self, n: usize) -> usize {
        if n <= 1 {
            return 0;
        }
        ((self.raw() as u64 * n as u64) >> 32) as usize
    }

    /// Uniform in `lo..=hi`.
    pub fn range(&mut self, lo: usize, hi: usize) -> usize {
        lo + self.below(hi - lo + 1)
    }

    /// True with probability num/den; an exhausted tape gives `false`.
    pub fn chance(&mut self, num: u32, den: u32) -> bool {
        let v = self.below(den as usize) as u32;
        v >= den - num
    }

    /// Index drawn according to `weights`; index 0 is the simplest alternative.
    pub fn weighted(&mut self, weights: &[u32]) -> usize {
        let total: u32 = weights.iter().sum();
        let mut v = self.below(total as usize) as u32;
        for (i, w) in weights.iter().enumerate() {
            if v < *w {
                return i;
            }
            v -= *w;
        }
        weights.len() - 1
    }

    pub fn pick<'b, T>(&mut self, items: &'b [T]) -> &'b T {
        &items[self.below(items.len())]
    }

    pub fn u64(&mut self) -> u64 {
        ((self.raw() as u64) << 32) | self.raw() as u64
    }

    pub fn byte(&mut self) -> u8 {
        (self.raw() >> 24) as u8
    }
}

/// Deterministic xorshift used only to derive tapes for libFuzzer inputs and for seeding; never
/// used inside a property.
pub fn bytes_to_tape(bytes: &[u8]) -> Vec<u32> {
    bytes
        .chunks(4)
        .map(|c| {
            let mut b = [0u8; 4];
            b[..c.len()].copy_from_slice(c);
            u32::from_be_bytes(b)
        })
        .collect()
}

//! The fixed fixture interfaces (compiled through the real macro by `fixture/build.rs`).

use crate::spec::{Decl, RetTy, Spec, Ty};

fn d(cmd: &str, params: &[Ty], ret: RetTy, is_async: bool) -> Decl {
    Decl::new(cmd, params, ret, is_async)
}

/// Small interface whose headers and literals are spellable over the class-representative alphabet
/// `A E H * : ; , space \n ? # 1 2 ' " . e +` (C05, C07, C12).
pub fn mini() -> Spec {
    use RetTy as R;
    use Ty::*;
    Spec {
        name: "mini".into(),
        standard: true,
        errors: true,
        decls: vec![
            d("*A", &[], R::None, false),
            d("*E?", &[], R::Int(U8), false),
            d("A", &[U8], R::None, false),
            d("A?", &[], R::Int(I32), false),
            d("H:A", &[F64], R::None, false),
            d("H:A?", &[], R::Str, false),
            d("H:E", &[Str], R::None, true),
            d("H:H", &[Bytes], R::None, false),
            d("E", &[Bool], R::None, false),
            d("E:E?", &[U8], R::Arb, true),
            d("HE:[A]:E", &[I16, Str], R::None, false),
            d("AE?", &[], R::Tup(vec![R::Int(U8), R::Str]), false),
            d("A:H", &[U8, U8, U8, U8, U8, U8, U8, U8, U8, U8], R::None, false),
            d("A:A?", &[Str], R::Int(I64), true),
        ],
    }
}

//! The fixed fixture interfaces (compiled through the real macro by `fixture/build.rs`).

use crate::spec::{Decl, RetTy, Spec, Ty};

fn d(cmd: &str, params: &[Ty], ret: RetTy, is_async: bool) -> Decl {
    Decl::new(cmd, params, ret, is_async)
}

/// Small interface whose headers and literals are spellable over the class-representative alphabet
/// `A E H * : ; , space \n ? # 1 2 ' " . e +` (C05, C07, C12).
pub fn mini() -> Spec {
    use RetTy as R;
    use Ty::*;
    Spec {
        name: "mini".into(),
        standard: true,
        errors: true,
        decls: vec![
            d("*A", &[], R::None, false),
            d("*E?", &[], R::Int(U8), false),
            d("A", &[U8], R::None, false),
            d("A?", &[], R::Int(I32), false),
            d("H:A", &[F64], R::None, false),
            d("H:A?", &[], R::Str, false),
            d("H:E", &[Str], R::None, true),
            d("H:H", &[Bytes], R::None, false),
            d("E", &[Bool], R::None, false),
            d("E:E?", &[U8], R::Arb, true),
            d("HE:[A]:E", &[I16, Str], R::None, false),
            d("AE?", &[], R::Tup(vec![R::Int(U8), R::Str]), false),
            d("A:H", &[U8, U8, U8, U8, U8, U8, U8, U8, U8, U8], R::None, false),
            d("A:A?", &[Str], R::Int(I64), true),
        ],
    }
}

/// Tree-rich interface: the same mnemonic at several levels, optional nodes, common commands,
/// payload carriers at every argument position, sync and async handlers (C02, C06, C08-C11, C13).
pub fn fx() -> Spec {
    use RetTy as R;
    use Ty::*;
    Spec {
        name: "fx".into(),
        standard: true,
        errors: true,
        decls: vec![
            d("*RST", &[], R::None, false),
            d("*IDN?", &[], R::Str, false),
            d("*OPC?", &[], R::Int(U8), false),
            d("*WAI", &[], R::None, true),
            d("A", &[I32], R::None, false),
            d("A?", &[], R::Int(I32), false),
            d("B", &[Str], R::None, false),
            d("B?", &[Str], R::Str, false),
            d("C", &[Bytes], R::None, false),
            d("SYSTem:A", &[I32], R::None, true),
            d("SYSTem:A?", &[], R::Int(I64), false),
            d("SYSTem:B", &[Str, Bytes], R::None, false),
            d("SYSTem:C?", &[Bytes], R::Arb, true),
            d("SYSTem:SUB:A", &[I32], R::None, false),
            d("SYSTem:SUB:A?", &[], R::Int(U8), true),
            d("SYSTem:SUB:B", &[Bytes, Str], R::None, false),
            d("SYSTem:SUB:[OPT]:D", &[Bool], R::None, false),
            d("SYSTem:SUB:[OPT]:D?", &[], R::Bool, false),
            d("[SENSe]:VOLTage:[DC]:RANGe", &[F64], R::None, false),
            d("[SENSe]:VOLTage:[DC]:RANGe?", &[], R::Int(I16), false),
            d("[SENSe]:VOLTage:A", &[I32], R::None, false),
            d("PAY:STEN", &[Str, Str, Str, Str, Str, Str, Str, Str, Str, Str], R::None, false),
            d("PAY:BTEN", &[Bytes, Bytes, Bytes, Bytes, Bytes, Bytes, Bytes, Bytes, Bytes, Bytes], R::None, false),
            d("PAY:MIX", &[U8, Str, Bytes, Bool, Str, Bytes, F64, Str, Bytes, I16], R::None, true),
            d("PAY:ECHO?", &[Str, Bytes], R::Tup(vec![R::Str, R::Arb]), false),
            d("MEASure:TEMPerature?", &[], R::HStr, false),
            d("TeST:CHan1_x:VALue", &[U16], R::None, false),
            d("TeST:CHan1_x:VALue?", &[], R::Tup(vec![R::Int(U16), R::Bool]), true),
            // siblings that share a prefix and then diverge at '_', a letter or the end; a mnemonic
            // longer than the twelve characters IEEE 488.2 allows (the macro accepts it)
            d("TeST:IN_A", &[I32], R::None, false),
            d("TeST:IN_B?", &[], R::Int(I32), false),
            d("TeST:INITiate", &[], R::None, false),
            d("TeST:INPut", &[Str], R::None, true),
            d("TeST:INP?", &[], R::Int(U8), false),
            d("CONFigure:SYNChronization", &[Bool], R::None, false),
            d("CONFigure:SYNChronization?", &[], R::Bool, false),
        ],
    }
}

/// Every parameter type and every response type (C03, C04).
pub fn ty() -> Spec {
    use RetTy as R;
    use Ty::*;
    let mut decls = Vec::new();
    for t in crate::spec::ALL_TYS {
        let name = ty_name(t);
        decls.push(d(&format!("ARG:{}", name), &[t], R::None, false));
    }
    decls.push(d("ARG:MNONe", &[], R::None, false));
    decls.push(d("ARG:MTWO", &[U8, Str], R::None, false));
    decls.push(d("ARG:MTHRee", &[I16, F32, Bool], R::None, true));
    decls.push(d("ARG:MFIVe", &[U64, I8, Bytes, F64, Str], R::None, false));
    decls.push(d("ARG:MTEN", &[I32, U8, Bool, Str, F32, Bytes, I64, U16, F64, Isize], R::None, false));
    decls.push(d("ARG:UTEN", &[U8, U8, U8, U8, U8, U8, U8, U8, U8, U8], R::None, false));
    decls.push(d("ARG:QONE?", &[U32], R::Int(U32), false));
    decls.push(d("ARG:QTHRee?", &[Str, Bool, I64], R::Bool, true));
    for t in crate::spec::INT_TYS {
        decls.push(d(&format!("RET:{}?", ty_name(t)), &[], R::Int(t), false));
    }
    decls.push(d("RET:FSINgle?", &[], R::F32, false));
    decls.push(d("RET:FDOUble?", &[], R::F64, true));
    decls.push(d("RET:BOOL?", &[], R::Bool, false));
    decls.push(d("RET:STR?", &[], R::Str, false));
    decls.push(d("RET:HSTR?", &[], R::HStr, false));
    decls.push(d("RET:STRING?", &[], R::SString, true));
    decls.push(d("RET:ARB?", &[], R::Arb, false));
    decls.push(d("RET:CHARS?", &[], R::Chars, false));
    decls.push(d("RET:ERR?", &[], R::Err, false));
    decls.push(d("RET:TTWO?", &[], R::Tup(vec![R::Int(U8), R::Str]), false));
    decls.push(d("RET:TTHRee?", &[], R::Tup(vec![R::Int(I64), R::F64, R::Bool]), false));
    decls.push(d("RET:TFOUr?", &[], R::Tup(vec![R::Chars, R::Arb, R::Str, R::Int(I8)]), true));
    decls.push(d("RET:HVI?", &[], R::HVec(Box::new(R::Int(I32))), false));
    decls.push(d("RET:HVS?", &[], R::HVec(Box::new(R::Str)), false));
    decls.push(d("RET:HVT?", &[], R::HVec(Box::new(R::Tup(vec![R::Int(U8), R::Str]))), false));
    decls.push(d("RET:HVF?", &[], R::HVec(Box::new(R::F32)), false));
    decls.push(d("RET:SLI?", &[], R::Slice(Box::new(R::Int(I32))), false));
    decls.push(d("RET:SLF?", &[], R::Slice(Box::new(R::F64)), false));
    decls.push(d("RET:SLB?", &[], R::Slice(Box::new(R::Bool)), false));
    decls.push(d("RET:SLU?", &[], R::Slice(Box::new(R::Int(U8))), true));
    decls.push(d("RET:TV?", &[], R::Tup(vec![R::HVec(Box::new(R::Int(I16))), R::Bool]), false));
    decls.push(d("RET:TT?", &[], R::Tup(vec![R::Tup(vec![R::Int(U8), R::Bool]), R::F64]), false));
    decls.push(d("RET:NONE", &[], R::None, false));
    decls.push(d("RET:CMD", &[U8], R::None, true));
    Spec {
        name: "ty".into(),
        standard: true,
        errors: true,
        decls,
    }
}

/// Interface for the no-alloc / no_std checks (C13): every parameter type, every response type that
/// does not allocate by definition, sync and async handlers.
pub fn na() -> Spec {
    use RetTy as R;
    use Ty::*;
    Spec {
        name: "na".into(),
        standard: true,
        errors: true,
        decls: vec![
            d("*RST", &[], R::None, false),
            d("*IDN?", &[], R::Str, false),
            d("A", &[I32], R::None, false),
            d("A?", &[], R::Int(I32), false),
            d("SYSTem:A", &[U8, I8, U16, I16, U32], R::None, true),
            d("SYSTem:B", &[I64, U64, Usize, Isize], R::None, false),
            d("SYSTem:A?", &[Str], R::Tup(vec![R::Int(U8), R::Str, R::Bool]), false),
            d("SYSTem:SUB:F", &[F32, F64, Bool], R::None, false),
            d("SYSTem:SUB:F?", &[], R::Tup(vec![R::F32, R::F64]), true),
            d("SYSTem:SUB:[OPT]:S", &[Str, Bytes], R::None, false),
            d("SYSTem:SUB:[OPT]:S?", &[Bytes], R::Arb, false),
            d("MEASure:ALL?", &[], R::HVec(Box::new(R::Tup(vec![R::Int(I16), R::Chars]))), false),
            d("MEASure:LIST?", &[], R::Slice(Box::new(R::F64)), false),
            d("MEASure:INTs?", &[], R::Slice(Box::new(R::Int(I32))), true),
            d("MEASure:NAMe?", &[], R::HStr, false),
            d("MEASure:ERRor?", &[], R::Err, false),
            d("PAY:BTEN", &[Bytes, Bytes, Bytes, Bytes, Bytes, Bytes, Bytes, Bytes, Bytes, Bytes], R::None, false),
            // runs of parameters of one type (signature shapes a dispatcher could be tempted to treat
            // as a list)
            d("SYSTem:WINDow", &[U32, U32, U32, U32], R::None, false),
            d("SYSTem:GAINs", &[F64, F64, F64, F64, F64], R::None, true),
            d("SYSTem:FLAGs", &[Bool, Bool, Bool, Bool], R::None, false),
            d("SYSTem:BYTes", &[U8, U8, U8, U8, U8, U8, U8, U8, U8, U8], R::None, false),
            d("SYSTem:SUM?", &[I16, I16, I16, I16], R::Int(I64), false),
            d("SYSTem:NAMes", &[Str, Str, Str, Str], R::None, false),
            // handlers whose parameter / response type is defined by the user (emitted as the keyword
            // enum `Mode` by the no-alloc code generator; the table says bool so that the literal
            // generator writes ON/off/True/1/0 and mismatches)
            d("USER:MODE", &[Bool], R::None, false),
            d("USER:MODE?", &[], R::Bool, false),
            d("USER:AMODe", &[U8, Bool], R::None, true),
            d("USER:AMODe?", &[Bool], R::Bool, true),
        ],
    }
}

/// Digit-free names for the parameter types, so that the fixtures stay collision-free under any
/// plausible derivation of short forms.
pub fn ty_name(t: Ty) -> String {
    match t {
        Ty::U8 => "UBYTe",
        Ty::I8 => "SBYTe",
        Ty::U16 => "UWORd",
        Ty::I16 => "SWORd",
        Ty::U32 => "ULONg",
        Ty::I32 => "SLONg",
        Ty::U64 => "UQUAd",
        Ty::I64 => "SQUAd",
        Ty::Usize => "USIZe",
        Ty::Isize => "SSIZe",
        Ty::F32 => "FSINgle",
        Ty::F64 => "FDOUble",
        Ty::Bool => "BOOLean",
        Ty::Str => "STRing",
        Ty::Bytes => "BLOCk",
    }
    .to_string()
}

//! Values returned by query handlers, with the reference encoder for the response types whose
//! IEEE 488.2 encoding is canonical (integers, booleans, strings, blocks, character data, lists).

use crate::spec::{RetTy, Ty};

#[derive(Clone, Debug, PartialEq)]
pub enum RVal {
    None,
    Int(i128),
    F32(u32),
    F64(u64),
    Bool(bool),
    Str(String),
    Bytes(Vec<u8>),
    /// error number and index into the static text table
    Err(i16, usize),
    List(Vec<RVal>),
    I32s(Vec<i32>),
    U8s(Vec<u8>),
    F64s(Vec<f64>),
    Bools(Vec<bool>),
}

/// Static texts for `Error::Custom` (the library wants `&'static str`).
pub const ERR_TEXTS: [&str; 8] = [
    "Custom error",
    "",
    "Device says \"no\"",
    "a,b;c",
    "x",
    "Over \"\" range",
    "long text with blanks and : # ' characters",
    "\"",
];

/// The default return value of a type (what fixture handlers return unless a case sets one).
pub fn default_rval(t: &RetTy) -> RVal {
    match t {
        RetTy::None => RVal::None,
        RetTy::Int(_) => RVal::Int(0),
        RetTy::F32 => RVal::F32(0),
        RetTy::F64 => RVal::F64(0),
        RetTy::Bool => RVal::Bool(false),
        RetTy::Str | RetTy::HStr | RetTy::SString => RVal::Str(String::new()),
        RetTy::Chars => RVal::Str("X".to_string()),
        RetTy::Arb => RVal::Bytes(Vec::new()),
        RetTy::Err => RVal::Err(1, 0),
        RetTy::Tup(v) => RVal::List(v.iter().map(default_rval).collect()),
        RetTy::HVec(_) => RVal::List(Vec::new()),
        RetTy::Slice(t) => match &**t {
            RetTy::Int(Ty::I32) => RVal::I32s(vec![]),
            RetTy::Int(Ty::U8) => RVal::U8s(vec![]),
            RetTy::F64 => RVal::F64s(vec![]),
            _ => RVal::Bools(vec![]),
        },
    }
}

pub fn encode_string(s: &str, out: &mut Vec<u8>) {
    out.push(b'"');
    for b in s.bytes() {
        if b == b'"' {
            out.push(b'"');
        }
        out.push(b);
    }
    out.push(b'"');
}

pub fn encode_block(b: &[u8], out: &mut Vec<u8>) {
    let len = b.len().to_string();
    out.push(b'#');
    out.extend_from_slice(len.len().to_string().as_bytes());
    out.extend_from_slice(len.as_bytes());
    out.extend_from_slice(b);
}

/// Reference encoding, `None` if the type has no canonical text (floats).
pub fn encode(t: &RetTy, v: &RVal, out: &mut Vec<u8>) -> Option<()> {
    match (t, v) {
        (RetTy::None, _) => {}
        (RetTy::Int(_), RVal::Int(i)) => out.extend_from_slice(i.to_string().as_bytes()),
        (RetTy::Bool, RVal::Bool(b)) => out.push(if *b { b'1' } else { b'0' }),
        (RetTy::Str | RetTy::HStr | RetTy::SString, RVal::Str(s)) => encode_string(s, out),
        (RetTy::Chars, RVal::Str(s)) => out.extend_from_slice(s.as_bytes()),
        (RetTy::Arb, RVal::Bytes(b)) => encode_block(b, out),
        (RetTy::Err, RVal::Err(n, ti)) => {
            out.extend_from_slice(n.to_string().as_bytes());
            out.push(b',');
            encode_string(ERR_TEXTS[*ti % ERR_TEXTS.len()], out);
        }
        (RetTy::Tup(ts), RVal::List(vs)) => {
            for (i, (t, v)) in ts.iter().zip(vs).enumerate() {
                if i > 0 {
                    out.push(b',');
                }
                encode(t, v, out)?;
            }
        }
        (RetTy::HVec(t), RVal::List(vs)) => {
            for (i, v) in vs.iter().enumerate() {
                if i > 0 {
                    out.push(b',');
                }
                encode(t, v, out)?;
            }
        }
        (RetTy::Slice(_), RVal::I32s(vs)) => {
            let parts: Vec<String> = vs.iter().map(|v| v.to_string()).collect();
            out.extend_from_slice(parts.join(",").as_bytes());
        }
        (RetTy::Slice(_), RVal::U8s(vs)) => {
            let parts: Vec<String> = vs.iter().map(|v| v.to_string()).collect();
            out.extend_from_slice(parts.join(",").as_bytes());
        }
        (RetTy::Slice(_), RVal::Bools(vs)) => {
            let parts: Vec<&str> = vs.iter().map(|v| if *v { "1" } else { "0" }).collect();
            out.extend_from_slice(parts.join(",").as_bytes());
        }
        _ => return None,
    }
    Some(())
}

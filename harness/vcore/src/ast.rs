//! Program-message AST and renderer; observation events.

use crate::runner::esc;
use crate::spec::Header;
use serde_json::{json, Value};

/// A program-data literal with its exact spelling.
#[derive(Clone, Debug, PartialEq, Eq, Hash)]
pub enum Lit {
    /// decimal numeric text such as `-12.50e+3`
    Dec(String),
    /// `#H..`, `#Q..`, `#B..`: radix 16/8/2, the prefix letter as spelled, the digits as spelled
    NonDec { radix: u32, prefix: u8, digits: String },
    /// character data (`ON`, `MAX`)
    Chars(String),
    /// quoted string; `quote` is `'` or `"`, the body never contains `quote`
    Str { quote: u8, body: Vec<u8> },
    /// definite-length block `#<ndig><len><body>`; the length is zero-padded to `ndig` digits
    Block { ndig: usize, body: Vec<u8> },
}

impl Lit {
    pub fn render(&self, out: &mut Vec<u8>) {
        match self {
            Lit::Dec(s) | Lit::Chars(s) => out.extend_from_slice(s.as_bytes()),
            Lit::NonDec { prefix, digits, .. } => {
                out.push(b'#');
                out.push(*prefix);
                out.extend_from_slice(digits.as_bytes());
            }
            Lit::Str { quote, body } => {
                out.push(*quote);
                out.extend_from_slice(body);
                out.push(*quote);
            }
            Lit::Block { ndig, body } => {
                out.extend_from_slice(format!("#{}{:0width$}", ndig, body.len(), width = *ndig).as_bytes());
                out.extend_from_slice(body);
            }
        }
    }
    pub fn rendered(&self) -> Vec<u8> {
        let mut v = Vec::new();
        self.render(&mut v);
        v
    }
    /// payload carried by a string or block literal
    pub fn payload(&self) -> Option<&[u8]> {
        match self {
            Lit::Str { body, .. } | Lit::Block { body, .. } => Some(body),
            _ => None,
        }
    }
}

/// White space slots of one unit (IEEE 488.2 white space: bytes 0-9 and 11-32).
#[derive(Clone, Debug, PartialEq, Eq, Hash, Default)]
pub struct Ws {
    pub before: Vec<u8>,
    /// between header and first parameter; at least one byte is required when there are parameters;
    /// the canonical rendering uses one blank
    pub gap: Vec<u8>,
    pub before_comma: Vec<u8>,
    pub after_comma: Vec<u8>,
    /// before `;` or the terminator
    pub end: Vec<u8>,
}

#[derive(Clone, Debug, PartialEq, Eq, Hash)]
pub struct Unit {
    pub header: Header,
    pub args: Vec<Lit>,
    pub ws: Ws,
    /// raw replacement text: when set, the unit is rendered as exactly these bytes (used for
    /// syntactically faulty units); header/args then only document the intent
    pub raw: Option<Vec<u8>>,
}

impl Unit {
    pub fn new(header: Header, args: Vec<Lit>) -> Unit {
        Unit {
            header,
            args,
            ws: Ws::default(),
            raw: None,
        }
    }
    pub fn render(&self, out: &mut Vec<u8>) {
        if let Some(raw) = &self.raw {
            out.extend_from_slice(raw);
            return;
        }
        out.extend_from_slice(&self.ws.before);
        out.extend_from_slice(self.header.render().as_bytes());
        if !self.args.is_empty() {
            if self.ws.gap.is_empty() {
                out.push(b' ');
            }
            else {
                out.extend_from_slice(&self.ws.gap);
            }
            for (i, a) in self.args.iter().enumerate() {
                if i > 0 {
                    out.extend_from_slice(&self.ws.before_comma);
                    out.push(b',');
                    out.extend_from_slice(&self.ws.after_comma);
                }
                a.render(out);
            }
        }
        out.extend_from_slice(&self.ws.end);
    }
}

#[derive(Clone, Debug, PartialEq, Eq, Hash)]
pub struct Message {
    pub units: Vec<Unit>,
    /// the message ends with `;` followed by (white space and) the terminator: a trailing empty unit
    pub trailing_semicolon: bool,
    /// white space before the terminator of an empty message / after a trailing `;`
    pub tail_ws: Vec<u8>,
    /// `\r\n` instead of `\n`
    pub crlf: bool,
}

impl Message {
    pub fn new(units: Vec<Unit>) -> Message {
        Message {
            units,
            trailing_semicolon: false,
            tail_ws: Vec::new(),
            crlf: false,
        }
    }
    pub fn render(&self, out: &mut Vec<u8>) {
        for (i, u) in self.units.iter().enumerate() {
            if i > 0 {
                out.push(b';');
            }
            u.render(out);
        }
        if self.trailing_semicolon && !self.units.is_empty() {
            out.push(b';');
        }
        out.extend_from_slice(&self.tail_ws);
        if self.crlf {
            out.push(b'\r');
        }
        out.push(b'\n');
    }
    pub fn rendered(&self) -> Vec<u8> {
        let mut v = Vec::new();
        self.render(&mut v);
        v
    }
}

pub fn render_all(msgs: &[Message]) -> Vec<u8> {
    let mut v = Vec::new();
    for m in msgs {
        m.render(&mut v);
    }
    v
}

// -------------------------------------------------------------------------------------------------
// Observation
// -------------------------------------------------------------------------------------------------

/// Argument value as received by a handler.
#[derive(Clone, Debug, PartialEq, Eq, Hash)]
pub enum ArgVal {
    Int(i128),
    F32(u32),
    F64(u64),
    Bool(bool),
    Str(Vec<u8>),
    Bytes(Vec<u8>),
}

impl ArgVal {
    pub fn show(&self) -> String {
        match self {
            ArgVal::Int(v) => format!("{}", v),
            ArgVal::F32(b) => format!("f32:{:?}", f32::from_bits(*b)),
            ArgVal::F64(b) => format!("f64:{:?}", f64::from_bits(*b)),
            ArgVal::Bool(b) => format!("{}", b),
            ArgVal::Str(s) => format!("str:'{}'", esc(s)),
            ArgVal::Bytes(s) => format!("bytes:'{}'", esc(s)),
        }
    }
}

/// One observed event. Handlers, the error handler, the response writer, the transport adapter and
/// the error queue all append to one ordered log.
#[derive(Clone, Debug, PartialEq, Eq, Hash)]
pub enum Ev {
    Handler { id: usize, args: Vec<ArgVal> },
    /// handler finished (after its last suspension)
    HandlerDone { id: usize },
    Error { num: i16, text: String },
    /// bytes handed to the response writer
    Write(Vec<u8>),
    Flush,
    QPush { num: i16 },
    QPop { num: Option<i16> },
    QCount { n: usize },
    ARead { dst_len: usize, got: usize },
    AWrite(Vec<u8>),
    AFlush,
    /// the adapter returned this error token
    AFail { token: u32 },
}

impl Ev {
    pub fn show(&self) -> String {
        match self {
            Ev::Handler { id, args } => format!(
                "H{}({})",
                id,
                args.iter().map(|a| a.show()).collect::<Vec<_>>().join(",")
            ),
            Ev::HandlerDone { id } => format!("done{}", id),
            Ev::Error { num, text } => format!("E({},{})", num, text),
            Ev::Write(b) => format!("W'{}'", esc(b)),
            Ev::Flush => "F".to_string(),
            Ev::QPush { num } => format!("push({})", num),
            Ev::QPop { num } => format!("pop({:?})", num),
            Ev::QCount { n } => format!("count({})", n),
            Ev::ARead { dst_len, got } => format!("read({}->{})", dst_len, got),
            Ev::AWrite(b) => format!("awrite'{}'", esc(b)),
            Ev::AFlush => "aflush".to_string(),
            Ev::AFail { token } => format!("afail({})", token),
        }
    }
}

pub fn show_log(log: &[Ev]) -> String {
    log.iter().map(|e| e.show()).collect::<Vec<_>>().join(" ")
}

pub fn log_json(log: &[Ev]) -> Value {
    json!(log.iter().map(|e| e.show()).collect::<Vec<_>>())
}

/// Joins consecutive `Write` events (writers may be called piecewise) so that logs can be compared
/// independently of how a response was split into write calls.
pub fn normalize(log: &[Ev]) -> Vec<Ev> {
    let mut out: Vec<Ev> = Vec::new();
    for e in log {
        match (out.last_mut(), e) {
            (Some(Ev::Write(prev)), Ev::Write(b)) => prev.extend_from_slice(b),
            _ => out.push(e.clone()),
        }
    }
    out
}

//! Tape-driven generation of program messages over a declaration-set model, the reference
//! interpreter that predicts what such messages must do, and the matcher that compares a
//! prediction with an observed event log.

use std::collections::{BTreeMap, VecDeque};

use crate::ast::{ArgVal, Ev, Lit, Message, Unit, Ws};
use crate::lits::{self, Expect, LitCfg, Want};
use crate::rval::{self, RVal, ERR_TEXTS};
use crate::spec::{Header, Model, RetTy, Target, Ty};
use crate::tape::Tape;

/// IEEE 488.2 white space: 0-9 and 11-32.
pub const WS_BYTES: [u8; 32] = [
    0, 1, 2, 3, 4, 5, 6, 7, 8, 9, 11, 12, 13, 14, 15, 16, 17, 18, 19, 20, 21, 22, 23, 24, 25, 26, 27, 28, 29,
    30, 31, 32,
];

#[derive(Clone, Debug)]
pub struct GenCfg {
    pub max_units: usize,
    pub lit: LitCfg,
    /// random case, white space and CR LF
    pub lexical: bool,
    /// weights: relative valid, absolute valid, common, context-mismatched (-113)
    pub w_unit: [u32; 4],
    /// probability (x/16) that a message ends in `;` / is empty
    pub p_trailing_semicolon: u32,
    pub p_empty_message: u32,
    /// restrict to declarations whose responses have a canonical encoding (no floats)
    pub canonical_responses_only: bool,
    /// declarations (user indices) chosen four times as often as the others
    pub boost: Vec<usize>,
    /// declarations (user indices) never chosen
    pub avoid: Vec<usize>,
    /// if set, only these declarations (user indices) are chosen
    pub only: Option<Vec<usize>>,
}

impl Default for GenCfg {
    fn default() -> Self {
        GenCfg {
            max_units: 4,
            lit: LitCfg::default(),
            lexical: true,
            w_unit: [6, 3, 2, 0],
            p_trailing_semicolon: 1,
            p_empty_message: 1,
            canonical_responses_only: true,
            boost: Vec::new(),
            avoid: Vec::new(),
            only: None,
        }
    }
}

#[derive(Clone, Debug)]
pub struct Key {
    pub path: Vec<String>,
    pub query: bool,
    pub target: Target,
}

/// Index over a model for generation.
pub struct Index<'a> {
    pub model: &'a Model,
    pub keys: Vec<Key>,
    pub by_target: BTreeMap<Target, Vec<usize>>,
    pub targets: Vec<Target>,
}

fn has_float(r: &RetTy) -> bool {
    match r {
        RetTy::F32 | RetTy::F64 => true,
        RetTy::Tup(v) => v.iter().any(has_float),
        RetTy::HVec(t) | RetTy::Slice(t) => has_float(t),
        _ => false,
    }
}

impl<'a> Index<'a> {
    pub fn new(model: &'a Model, canonical_only: bool) -> Index<'a> {
        let mut keys = Vec::new();
        let mut by_target: BTreeMap<Target, Vec<usize>> = BTreeMap::new();
        for ((path, query), target) in &model.dict {
            if canonical_only {
                if let Some(d) = model.decl(*target) {
                    if has_float(&d.ret) {
                        continue;
                    }
                }
            }
            by_target.entry(*target).or_default().push(keys.len());
            keys.push(Key {
                path: path.clone(),
                query: *query,
                target: *target,
            });
        }
        let targets = by_target.keys().copied().collect();
        Index {
            model,
            keys,
            by_target,
            targets,
        }
    }
}

pub fn spell(t: &mut Tape, upper: &str, lexical: bool) -> String {
    if !lexical {
        return upper.to_string();
    }
    match t.weighted(&[2, 1, 3]) {
        0 => upper.to_string(),
        1 => upper.to_ascii_lowercase(),
        _ => upper
            .chars()
            .map(|c| if t.chance(1, 2) { c.to_ascii_lowercase() } else { c })
            .collect(),
    }
}

pub fn gen_ws(t: &mut Tape, lexical: bool, min: usize) -> Vec<u8> {
    if !lexical {
        return vec![b' '; min];
    }
    let n = match t.weighted(&[5, 3, 1]) {
        0 => min,
        1 => min.max(1),
        _ => t.range(min.max(1), 4),
    };
    (0..n)
        .map(|_| match t.weighted(&[4, 1, 1, 2]) {
            0 => b' ',
            1 => b'\t',
            2 => b'\r',
            _ => WS_BYTES[t.below(WS_BYTES.len())],
        })
        .collect()
}

pub fn gen_ws_slots(t: &mut Tape, lexical: bool) -> Ws {
    if !lexical {
        return Ws::default();
    }
    Ws {
        before: gen_ws(t, true, 0),
        gap: gen_ws(t, true, 1),
        before_comma: gen_ws(t, true, 0),
        after_comma: gen_ws(t, true, 0),
        end: gen_ws(t, true, 0),
    }
}

fn header_from_key(t: &mut Tape, key: &Key, skip: usize, absolute: bool, lexical: bool) -> Header {
    Header {
        absolute,
        mnems: key.path[skip..].iter().map(|m| spell(t, m, lexical)).collect(),
        query: key.query,
    }
}

/// Literals that the declared parameters accept.
pub fn gen_args(t: &mut Tape, params: &[Ty], cfg: &LitCfg) -> Vec<Lit> {
    params.iter().map(|ty| lits::gen_fitting(t, *ty, cfg)).collect()
}

/// Generates one unit in path context `ctx`; returns the unit.
pub fn gen_unit(t: &mut Tape, ix: &Index, ctx: &[String], cfg: &GenCfg) -> Unit {
    let allowed = |i: &usize| -> bool {
        match ix.keys[*i].target {
            Target::User(d) => !cfg.avoid.contains(&d) && cfg.only.as_ref().map(|o| o.contains(&d)).unwrap_or(true),
            _ => cfg.only.is_none(),
        }
    };
    let non_common: Vec<usize> =
        (0..ix.keys.len()).filter(|&i| !ix.keys[i].path[0].starts_with('*')).filter(allowed).collect();
    let common: Vec<usize> =
        (0..ix.keys.len()).filter(|&i| ix.keys[i].path[0].starts_with('*')).filter(allowed).collect();
    let relative: Vec<usize> = non_common
        .iter()
        .copied()
        .filter(|&i| {
            let p = &ix.keys[i].path;
            p.len() > ctx.len() && p[..ctx.len()] == *ctx
        })
        .collect();
    let mut w = cfg.w_unit;
    if relative.is_empty() {
        w[0] = 0;
    }
    if non_common.is_empty() {
        w[1] = 0;
        w[3] = 0;
    }
    if common.is_empty() {
        w[2] = 0;
    }
    if ctx.is_empty() {
        w[3] = 0;
    }
    if w.iter().sum::<u32>() == 0 {
        // nothing declared: an (undefined) header
        return Unit::new(
            Header {
                absolute: false,
                mnems: vec!["X".into()],
                query: false,
            },
            vec![],
        );
    }
    let kind = t.weighted(&w);
    // choose by declaration first so that declarations with many spellings do not dominate
    let pick_key = |t: &mut Tape, cands: &[usize]| -> usize {
        let mut targets: Vec<Target> = cands.iter().map(|&i| ix.keys[i].target).collect();
        targets.sort();
        targets.dedup();
        let boosted: Vec<Target> = targets
            .iter()
            .copied()
            .filter(|tg| matches!(tg, Target::User(i) if cfg.boost.contains(i)))
            .collect();
        for _ in 0..3 {
            targets.extend_from_slice(&boosted);
        }
        let tg = targets[t.below(targets.len())];
        let of: Vec<usize> = cands.iter().copied().filter(|&i| ix.keys[i].target == tg).collect();
        of[t.below(of.len())]
    };
    let (header, key) = match kind {
        0 => {
            let k = pick_key(t, &relative);
            (header_from_key(t, &ix.keys[k], ctx.len(), false, cfg.lexical), k)
        }
        1 => {
            // favour single-mnemonic absolute headers now and then
            let singles: Vec<usize> = non_common.iter().copied().filter(|&i| ix.keys[i].path.len() == 1).collect();
            let k = if !singles.is_empty() && t.chance(1, 3) { pick_key(t, &singles) } else { pick_key(t, &non_common) };
            let absolute = !ctx.is_empty() || t.chance(1, 2);
            (header_from_key(t, &ix.keys[k], 0, absolute, cfg.lexical), k)
        }
        2 => {
            let k = pick_key(t, &common);
            (header_from_key(t, &ix.keys[k], 0, false, cfg.lexical), k)
        }
        _ => {
            // a header that is declared from the root, spelled relative in a context where it
            // (most likely) is not: judged by the model, whatever it turns out to be
            let k = pick_key(t, &non_common);
            let skip = if t.chance(1, 2) { 0 } else { t.below(ix.keys[k].path.len()) };
            (header_from_key(t, &ix.keys[k], skip, false, cfg.lexical), k)
        }
    };
    // arguments fit the declaration the header resolves to *in this context* (for a
    // context-mismatched header that may be another declaration than the one it was built from)
    let resolved = ix.model.resolve(ctx, &header).target.unwrap_or(ix.keys[key].target);
    let params: Vec<Ty> = ix.model.decl(resolved).map(|d| d.params.clone()).unwrap_or_default();
    let args = gen_args(t, &params, &cfg.lit);
    let mut u = Unit::new(header, args);
    u.ws = gen_ws_slots(t, cfg.lexical);
    u
}

pub fn gen_message(t: &mut Tape, ix: &Index, cfg: &GenCfg) -> Message {
    if t.chance(cfg.p_empty_message, 16) {
        let mut m = Message::new(vec![]);
        m.tail_ws = gen_ws(t, cfg.lexical, 0);
        m.crlf = cfg.lexical && t.chance(1, 4);
        return m;
    }
    let n = t.range(1, cfg.max_units.max(1));
    let mut units = Vec::new();
    let mut ctx: Vec<String> = Vec::new();
    for _ in 0..n {
        let u = gen_unit(t, ix, &ctx, cfg);
        let r = ix.model.resolve(&ctx, &u.header);
        if let Some(c) = r.new_ctx {
            ctx = c;
        }
        units.push(u);
    }
    let mut m = Message::new(units);
    m.trailing_semicolon = t.chance(cfg.p_trailing_semicolon, 16);
    if m.trailing_semicolon {
        m.tail_ws = gen_ws(t, cfg.lexical, 0);
    }
    m.crlf = cfg.lexical && t.chance(1, 4);
    m
}

// -------------------------------------------------------------------------------------------------
// Environment of a case: what handlers return / how they fail
// -------------------------------------------------------------------------------------------------

/// Independent table of the standard errors the harness lets handlers return.
pub const STD_ERRS: [(i16, &str); 6] = [
    (-200, "Execution error"),
    (-222, "Data out of range"),
    (-240, "Hardware error"),
    (-221, "Settings conflict"),
    (-350, "Queue overflow"),
    (-113, "Undefined header"),
];

#[derive(Clone, Copy, Debug, PartialEq, Eq, Hash)]
pub enum FailSpec {
    /// `Error::Custom(number, ERR_TEXTS[i])`
    Custom(i16, usize),
    /// `STD_ERRS[i]`
    Std(usize),
}

impl FailSpec {
    pub fn number_text(&self) -> (i16, String) {
        match self {
            FailSpec::Custom(n, i) => (*n, ERR_TEXTS[*i % ERR_TEXTS.len()].to_string()),
            FailSpec::Std(i) => {
                let (n, t) = STD_ERRS[*i % STD_ERRS.len()];
                (n, t.to_string())
            }
        }
    }
}

#[derive(Clone, Debug)]
pub struct Env {
    pub rets: Vec<RVal>,
    pub fail: Vec<Option<FailSpec>>,
    /// error queue capacity (interfaces with ErrorCommands)
    pub qcap: usize,
}

impl Env {
    pub fn new(model: &Model, qcap: usize) -> Env {
        Env {
            rets: model.spec.decls.iter().map(|d| rval::default_rval(&d.ret)).collect(),
            fail: vec![None; model.spec.decls.len()],
            qcap,
        }
    }
}

// -------------------------------------------------------------------------------------------------
// Prediction
// -------------------------------------------------------------------------------------------------

#[derive(Clone, Debug)]
pub enum ErrSpec {
    Any,
    OneOf(Vec<i16>),
    Exact(i16, String),
}

#[derive(Clone, Debug)]
pub enum PEv {
    Handler { id: usize, args: Vec<Want> },
    Error(ErrSpec),
    /// a response: the value and its type (judged by the decoder) and its canonical bytes with the
    /// terminating newline (accepted without decoding); followed by a flush
    Response { ty: RetTy, val: RVal, canonical: Vec<u8> },
    /// some non-empty, newline-terminated response (SYSTem:VERSion?: the value is not specified)
    AnyResponse,
    /// response of SYSTem:ERRor[:NEXT]? / COUNt?, computed from the queue model while matching
    ErrNext,
    ErrCount,
    /// the rest of the message may be executed or dropped: alternatively continue at this index
    Barrier { skip_to: usize },
    /// message boundary (no observable event)
    EndOfMessage,
}

/// A faulty unit carries its expectation explicitly.
#[derive(Clone, Debug)]
pub enum UnitKind {
    /// judged by the model
    Normal,
    /// a syntax error: exactly one error of any number, nothing else from this unit
    Syntax,
}

/// Predicts the events of a sequence of messages, each starting at the root path.
pub fn predict(model: &Model, msgs: &[Message], kinds: Option<&[Vec<UnitKind>]>, env: &Env) -> Vec<PEv> {
    let mut out: Vec<PEv> = Vec::new();
    for (mi, m) in msgs.iter().enumerate() {
        let mut ctx: Vec<String> = Vec::new();
        let mut barriers: Vec<usize> = Vec::new();
        for (ui, u) in m.units.iter().enumerate() {
            let kind = kinds.and_then(|k| k.get(mi)).and_then(|k| k.get(ui)).cloned().unwrap_or(UnitKind::Normal);
            if let UnitKind::Syntax = kind {
                out.push(PEv::Error(ErrSpec::Any));
                barriers.push(out.len());
                out.push(PEv::Barrier { skip_to: 0 });
                // the path after a syntactically broken unit is unspecified: stop predicting this
                // message (the generators put nothing path-dependent behind such a unit)
                continue;
            }
            let r = model.resolve(&ctx, &u.header);
            let mut faulty = false;
            match r.target {
                None => {
                    out.push(PEv::Error(ErrSpec::OneOf(vec![-113])));
                    faulty = true;
                }
                Some(Target::StdVersion) => {
                    if u.args.is_empty() {
                        out.push(PEv::AnyResponse);
                    }
                    else {
                        out.push(PEv::Error(ErrSpec::Any));
                        faulty = true;
                    }
                }
                Some(Target::ErrNext) => {
                    if u.args.is_empty() {
                        out.push(PEv::ErrNext);
                    }
                    else {
                        out.push(PEv::Error(ErrSpec::Any));
                        faulty = true;
                    }
                }
                Some(Target::ErrCount) => {
                    if u.args.is_empty() {
                        out.push(PEv::ErrCount);
                    }
                    else {
                        out.push(PEv::Error(ErrSpec::Any));
                        faulty = true;
                    }
                }
                Some(Target::User(id)) => {
                    let d = &model.spec.decls[id];
                    if d.params.len() != u.args.len() {
                        out.push(PEv::Error(ErrSpec::Any));
                        faulty = true;
                    }
                    else {
                        let mut wants = Vec::new();
                        let mut reject: Vec<i16> = Vec::new();
                        for (lit, ty) in u.args.iter().zip(&d.params) {
                            match lits::expect(lit, *ty) {
                                Expect::Value(w) => wants.push(w),
                                // general messages never contain lenient literals; if one slips in,
                                // treat it as delivered (C03 has its own comparator)
                                Expect::Either(w, _) => wants.push(w),
                                Expect::Reject(nums) => reject.extend_from_slice(nums),
                            }
                        }
                        if !reject.is_empty() {
                            out.push(PEv::Error(ErrSpec::OneOf(reject)));
                            faulty = true;
                        }
                        else {
                            out.push(PEv::Handler { id, args: wants });
                            if let Some(f) = env.fail.get(id).copied().flatten() {
                                let (n, text) = f.number_text();
                                // a custom error is (number, text): both must arrive verbatim; a
                                // standard error is identified by its number (its description is the
                                // library's business)
                                out.push(PEv::Error(match f {
                                    FailSpec::Custom(..) => ErrSpec::Exact(n, text),
                                    FailSpec::Std(_) => ErrSpec::OneOf(vec![n]),
                                }));
                                faulty = true;
                            }
                            else if d.is_query() {
                                let mut bytes = Vec::new();
                                rval::encode(&d.ret, &env.rets[id], &mut bytes)
                                    .expect("response type without canonical encoding in a predicted message");
                                bytes.push(b'\n');
                                out.push(PEv::Response {
                                    ty: d.ret.clone(),
                                    val: env.rets[id].clone(),
                                    canonical: bytes,
                                });
                            }
                        }
                    }
                }
            }
            if let Some(c) = r.new_ctx {
                ctx = c;
            }
            if faulty && ui + 1 < m.units.len() {
                // after every faulty unit the rest of the message may be executed or dropped
                barriers.push(out.len());
                out.push(PEv::Barrier { skip_to: 0 });
            }
        }
        let end = out.len();
        out.push(PEv::EndOfMessage);
        for b in barriers {
            out[b] = PEv::Barrier { skip_to: end };
        }
    }
    out
}

// -------------------------------------------------------------------------------------------------
// Matching
// -------------------------------------------------------------------------------------------------

/// Observed item stream derived from an event log.
#[derive(Clone, Debug, PartialEq)]
pub enum Item {
    H { id: usize, args: Vec<ArgVal> },
    E { num: i16, text: String },
    /// bytes written then flushed (only when the writer records into the log)
    R(Vec<u8>),
    /// bytes written but not followed by a flush
    Unflushed(Vec<u8>),
}

pub fn items(log: &[Ev]) -> Vec<Item> {
    let mut out = Vec::new();
    let mut pending: Option<Vec<u8>> = None;
    for e in log {
        match e {
            Ev::Write(b) => pending.get_or_insert_with(Vec::new).extend_from_slice(b),
            // a flush with nothing pending writes nothing and is not an observable response
            Ev::Flush => {
                if let Some(p) = pending.take() {
                    out.push(Item::R(p));
                }
            }
            Ev::Handler { id, args } => {
                if let Some(p) = pending.take() {
                    out.push(Item::Unflushed(p));
                }
                out.push(Item::H {
                    id: *id,
                    args: args.clone(),
                });
            }
            Ev::Error { num, text } => {
                if let Some(p) = pending.take() {
                    out.push(Item::Unflushed(p));
                }
                out.push(Item::E {
                    num: *num,
                    text: text.clone(),
                });
            }
            _ => {}
        }
    }
    if let Some(p) = pending.take() {
        out.push(Item::Unflushed(p));
    }
    out
}

/// Reference model of the error queue (IEEE 488.2 21.8.1).
#[derive(Clone, Debug)]
pub struct QueueModel {
    pub cap: usize,
    pub q: VecDeque<(i16, String)>,
}

impl QueueModel {
    pub fn new(cap: usize) -> QueueModel {
        QueueModel {
            cap,
            q: VecDeque::new(),
        }
    }
    pub fn push(&mut self, num: i16, text: &str) {
        if self.q.len() < self.cap {
            self.q.push_back((num, text.to_string()));
        }
        else if let Some(last) = self.q.back_mut() {
            *last = (-350, "Queue overflow".to_string());
        }
    }
    pub fn next_response(&mut self) -> Vec<u8> {
        let (n, text) = self.q.pop_front().unwrap_or((0, String::new()));
        let mut out = n.to_string().into_bytes();
        out.push(b',');
        rval::encode_string(&text, &mut out);
        out.push(b'\n');
        out
    }
    pub fn count_response(&self) -> Vec<u8> {
        format!("{}\n", self.q.len()).into_bytes()
    }
}

pub struct MatchCfg {
    /// responses appear as `R` items in the observation (recording writer); otherwise only the
    /// concatenated output is compared (`output`)
    pub responses_in_log: bool,
    pub output: Option<Vec<u8>>,
    pub qcap: usize,
}

fn err_ok(spec: &ErrSpec, num: i16, text: &str) -> bool {
    match spec {
        ErrSpec::Any => true,
        ErrSpec::OneOf(v) => v.contains(&num),
        ErrSpec::Exact(n, t) => *n == num && t == text,
    }
}

type Memo = std::collections::HashSet<(usize, usize, u64, u64)>;

fn rec(
    pred: &[PEv], pi: usize, obs: &[Item], oi: usize, q: QueueModel, out: Vec<u8>, cfg: &MatchCfg,
    best: &mut (usize, String), memo: &mut Memo,
) -> bool {
    // states that already failed (same position, same queue, same output) need not be retried:
    // keeps the all-or-none alternatives from multiplying
    let key = (pi, oi, crate::runner::hash_of(&format!("{:?}", q.q)), crate::runner::hash_of(&out));
    if memo.contains(&key) {
        return false;
    }
    let ok = rec_inner(pred, pi, obs, oi, q, out, cfg, best, memo);
    if !ok {
        memo.insert(key);
    }
    ok
}

fn rec_inner(
    pred: &[PEv], mut pi: usize, obs: &[Item], mut oi: usize, mut q: QueueModel, mut out: Vec<u8>, cfg: &MatchCfg,
    best: &mut (usize, String), memo: &mut Memo,
) -> bool {
    let note = |best: &mut (usize, String), oi: usize, msg: String| {
        if oi >= best.0 {
            *best = (oi, msg);
        }
    };
    loop {
        if pi >= pred.len() {
            if oi < obs.len() {
                note(best, oi, format!("unexpected extra event {:?}", obs[oi]));
                return false;
            }
            if let Some(observed) = &cfg.output {
                if *observed != out {
                    note(
                        best,
                        oi,
                        format!(
                            "output bytes differ: expected '{}' got '{}'",
                            crate::runner::esc(&out),
                            crate::runner::esc(observed)
                        ),
                    );
                    return false;
                }
            }
            return true;
        }
        match &pred[pi] {
            PEv::EndOfMessage => pi += 1,
            PEv::Barrier { skip_to } => {
                // alternative 1: the rest of the message is dropped
                if rec(pred, *skip_to, obs, oi, q.clone(), out.clone(), cfg, best, memo) {
                    return true;
                }
                pi += 1;
            }
            PEv::Handler { id, args } => match obs.get(oi) {
                Some(Item::H { id: oid, args: oargs })
                    if oid == id
                        && oargs.len() == args.len()
                        && args.iter().zip(oargs).all(|(w, g)| lits::satisfies(w, g)) =>
                {
                    pi += 1;
                    oi += 1;
                }
                other => {
                    note(best, oi, format!("expected handler {} with {:?}, observed {:?}", id, args, other));
                    return false;
                }
            },
            PEv::Error(spec) => match obs.get(oi) {
                Some(Item::E { num, text }) if err_ok(spec, *num, text) => {
                    q.push(*num, text);
                    pi += 1;
                    oi += 1;
                }
                other => {
                    note(best, oi, format!("expected error {:?}, observed {:?}", spec, other));
                    return false;
                }
            },
            PEv::AnyResponse => {
                // only usable when responses are observed individually
                if cfg.responses_in_log {
                    match obs.get(oi) {
                        Some(Item::R(b)) if b.len() > 1 && b.last() == Some(&b'\n') => {
                            out.extend_from_slice(b);
                            oi += 1;
                        }
                        other => {
                            note(best, oi, format!("expected a response, observed {:?}", other));
                            return false;
                        }
                    }
                }
                else {
                    // concatenated output: take everything up to the next newline
                    let observed = cfg.output.as_deref().unwrap_or(&[]);
                    let rest = &observed[out.len().min(observed.len())..];
                    match rest.iter().position(|b| *b == b'\n') {
                        Some(p) if p > 0 => out.extend_from_slice(&rest[..=p]),
                        _ => {
                            note(best, oi, "expected a response in the output".to_string());
                            return false;
                        }
                    }
                }
                pi += 1;
            }
            PEv::Response { .. } | PEv::ErrNext | PEv::ErrCount => {
                let (ty, val, canonical): (RetTy, RVal, Vec<u8>) = match &pred[pi] {
                    PEv::Response { ty, val, canonical } => (ty.clone(), val.clone(), canonical.clone()),
                    PEv::ErrNext => {
                        let (n, text) = q.q.front().cloned().unwrap_or((0, String::new()));
                        (
                            RetTy::Tup(vec![RetTy::Int(Ty::I16), RetTy::Str]),
                            RVal::List(vec![RVal::Int(n as i128), RVal::Str(text)]),
                            q.next_response(),
                        )
                    }
                    _ => (RetTy::Int(Ty::Usize), RVal::Int(q.q.len() as i128), q.count_response()),
                };
                if cfg.responses_in_log {
                    match obs.get(oi) {
                        Some(Item::R(b))
                            if *b == canonical
                                || (b.last() == Some(&b'\n')
                                    && crate::decode::check_response(&ty, &val, &b[..b.len() - 1]).is_ok()) =>
                        {
                            out.extend_from_slice(b);
                            oi += 1;
                        }
                        other => {
                            note(
                                best,
                                oi,
                                format!(
                                    "expected response '{}' then flush, observed {:?}",
                                    crate::runner::esc(&canonical),
                                    other
                                ),
                            );
                            return false;
                        }
                    }
                }
                else if let Some(observed) = &cfg.output {
                    // concatenated output: the response must come next, canonical or decodable
                    let rest = &observed[out.len().min(observed.len())..];
                    if rest.starts_with(&canonical) {
                        out.extend_from_slice(&canonical);
                    }
                    else {
                        match crate::decode::decode_prefix(&ty, &val, rest) {
                            Ok(n) if rest.get(n) == Some(&b'\n') => out.extend_from_slice(&rest[..=n]),
                            _ => {
                                note(
                                    best,
                                    oi,
                                    format!(
                                        "output does not continue with the response '{}': '{}'",
                                        crate::runner::esc(&canonical),
                                        crate::runner::esc(&rest[..rest.len().min(80)])
                                    ),
                                );
                                return false;
                            }
                        }
                    }
                }
                else {
                    out.extend_from_slice(&canonical);
                }
                pi += 1;
            }
        }
    }
}

/// Compares a prediction with an observation. `Err` describes the first mismatch.
pub fn match_log(pred: &[PEv], log: &[Ev], cfg: &MatchCfg) -> Result<(), String> {
    let obs = items(log);
    let mut best = (0usize, String::new());
    let mut memo = Memo::new();
    if rec(pred, 0, &obs, 0, QueueModel::new(cfg.qcap), Vec::new(), cfg, &mut best, &mut memo) {
        Ok(())
    }
    else {
        Err(format!("at observed item {}: {}", best.0, best.1))
    }
}

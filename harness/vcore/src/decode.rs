//! Independent, type-directed decoder for IEEE 488.2 response data: checks that a response decodes
//! completely and exactly to the value the handler returned.

use crate::bignum::{check_f32, check_f64, parse_decimal, Rounding};
use crate::rval::{RVal, ERR_TEXTS};
use crate::spec::RetTy;

struct Cur<'a> {
    b: &'a [u8],
    pos: usize,
}

impl<'a> Cur<'a> {
    fn peek(&self) -> Option<u8> {
        self.b.get(self.pos).copied()
    }
    fn eat(&mut self, c: u8) -> Result<(), String> {
        if self.peek() == Some(c) {
            self.pos += 1;
            Ok(())
        }
        else {
            Err(format!("expected '{}' at offset {}", c as char, self.pos))
        }
    }
    fn take_while(&mut self, f: impl Fn(u8) -> bool) -> &'a [u8] {
        let start = self.pos;
        while self.pos < self.b.len() && f(self.b[self.pos]) {
            self.pos += 1;
        }
        &self.b[start..self.pos]
    }
}

fn integer(c: &mut Cur) -> Result<i128, String> {
    let start = c.pos;
    if matches!(c.peek(), Some(b'+') | Some(b'-')) {
        c.pos += 1;
    }
    let digits = c.take_while(|b| b.is_ascii_digit());
    if digits.is_empty() {
        return Err(format!("expected an integer (NR1) at offset {}", start));
    }
    std::str::from_utf8(&c.b[start..c.pos])
        .unwrap()
        .trim_start_matches('+')
        .parse::<i128>()
        .map_err(|e| format!("integer: {}", e))
}

/// NRf token: [+-]? digits [. digits*] | . digits+, optional E[+-]digits
fn nrf<'a>(c: &mut Cur<'a>) -> Result<&'a str, String> {
    let start = c.pos;
    if matches!(c.peek(), Some(b'+') | Some(b'-')) {
        c.pos += 1;
    }
    let int = c.take_while(|b| b.is_ascii_digit()).len();
    let mut frac = 0;
    if c.peek() == Some(b'.') {
        c.pos += 1;
        frac = c.take_while(|b| b.is_ascii_digit()).len();
    }
    if int + frac == 0 {
        return Err(format!("expected a decimal number (NRf) at offset {}", start));
    }
    if matches!(c.peek(), Some(b'E') | Some(b'e')) {
        c.pos += 1;
        if matches!(c.peek(), Some(b'+') | Some(b'-')) {
            c.pos += 1;
        }
        if c.take_while(|b| b.is_ascii_digit()).is_empty() {
            return Err(format!("exponent without digits at offset {}", c.pos));
        }
    }
    Ok(std::str::from_utf8(&c.b[start..c.pos]).unwrap())
}

fn float(c: &mut Cur, bits: u64, is32: bool) -> Result<(), String> {
    let text = nrf(c)?;
    let (nan, inf, neg, zero) = if is32 {
        let v = f32::from_bits(bits as u32);
        (v.is_nan(), v.is_infinite(), v.is_sign_negative(), v == 0.0)
    }
    else {
        let v = f64::from_bits(bits);
        (v.is_nan(), v.is_infinite(), v.is_sign_negative(), v == 0.0)
    };
    if nan {
        return if text == "9.91E+37" { Ok(()) } else { Err(format!("NaN must be sent as 9.91E+37, got '{}'", text)) };
    }
    if inf {
        let want = if neg { "-9.9E+37" } else { "9.9E+37" };
        return if text == want { Ok(()) } else { Err(format!("infinity must be sent as {}, got '{}'", want, text)) };
    }
    let dec = parse_decimal(text).ok_or_else(|| format!("'{}' is not a decimal number", text))?;
    if zero && dec.neg != neg {
        return Err(format!("sign of zero lost: '{}'", text));
    }
    let r = if is32 { check_f32(&dec, bits as u32) } else { check_f64(&dec, bits) };
    match r {
        Rounding::Correct => Ok(()),
        Rounding::Wrong => Err(format!("'{}' does not decode to the returned value (bits {:#x})", text, bits)),
        Rounding::Unknown => Err(format!("'{}' is outside the range the exact decoder handles", text)),
    }
}

fn string(c: &mut Cur, want: &[u8]) -> Result<(), String> {
    c.eat(b'"')?;
    let mut got = Vec::new();
    loop {
        match c.peek() {
            None => return Err("string response is not closed".to_string()),
            Some(b'"') => {
                if c.b.get(c.pos + 1) == Some(&b'"') {
                    got.push(b'"');
                    c.pos += 2;
                }
                else {
                    c.pos += 1;
                    break;
                }
            }
            Some(b) => {
                got.push(b);
                c.pos += 1;
            }
        }
    }
    if got == want {
        Ok(())
    }
    else {
        Err(format!(
            "string decodes to '{}' instead of '{}'",
            crate::runner::esc(&got),
            crate::runner::esc(want)
        ))
    }
}

fn block(c: &mut Cur, want: &[u8]) -> Result<(), String> {
    c.eat(b'#')?;
    let nd = match c.peek() {
        Some(d @ b'1'..=b'9') => (d - b'0') as usize,
        other => return Err(format!("block header: bad digit count {:?}", other.map(|b| b as char))),
    };
    c.pos += 1;
    if c.pos + nd > c.b.len() {
        return Err("block header truncated".into());
    }
    let len_txt = &c.b[c.pos..c.pos + nd];
    if !len_txt.iter().all(|b| b.is_ascii_digit()) {
        return Err("block length is not numeric".into());
    }
    let len: usize = std::str::from_utf8(len_txt).unwrap().parse().unwrap();
    c.pos += nd;
    if c.pos + len > c.b.len() {
        return Err(format!("block announces {} bytes but only {} follow", len, c.b.len() - c.pos));
    }
    let got = &c.b[c.pos..c.pos + len];
    c.pos += len;
    if got == want {
        Ok(())
    }
    else {
        Err(format!("block of {} bytes differs from the returned {} bytes", got.len(), want.len()))
    }
}

fn value(c: &mut Cur, t: &RetTy, v: &RVal) -> Result<(), String> {
    match (t, v) {
        (RetTy::None, _) => Ok(()),
        (RetTy::Int(_), RVal::Int(want)) => {
            let got = integer(c)?;
            if got == *want { Ok(()) } else { Err(format!("integer decodes to {} instead of {}", got, want)) }
        }
        (RetTy::F32, RVal::F32(bits)) => float(c, *bits as u64, true),
        (RetTy::F64, RVal::F64(bits)) => float(c, *bits, false),
        (RetTy::Bool, RVal::Bool(b)) => c.eat(if *b { b'1' } else { b'0' }),
        (RetTy::Str | RetTy::HStr | RetTy::SString, RVal::Str(s)) => string(c, s.as_bytes()),
        (RetTy::Chars, RVal::Str(s)) => {
            let got = c.take_while(|b| b.is_ascii_alphanumeric() || b == b'_');
            if got == s.as_bytes() { Ok(()) } else { Err(format!("character data '{}' instead of '{}'", crate::runner::esc(got), s)) }
        }
        (RetTy::Arb, RVal::Bytes(b)) => block(c, b),
        (RetTy::Err, RVal::Err(n, ti)) => {
            let got = integer(c)?;
            if got != *n as i128 {
                return Err(format!("error number {} instead of {}", got, n));
            }
            c.eat(b',')?;
            string(c, ERR_TEXTS[*ti % ERR_TEXTS.len()].as_bytes())
        }
        (RetTy::Tup(ts), RVal::List(vs)) => {
            for (i, (t, v)) in ts.iter().zip(vs).enumerate() {
                if i > 0 {
                    c.eat(b',')?;
                }
                value(c, t, v)?;
            }
            Ok(())
        }
        (RetTy::HVec(t), RVal::List(vs)) => {
            for (i, v) in vs.iter().enumerate() {
                if i > 0 {
                    c.eat(b',')?;
                }
                value(c, t, v)?;
            }
            Ok(())
        }
        (RetTy::Slice(_), RVal::I32s(vs)) => {
            for (i, v) in vs.iter().enumerate() {
                if i > 0 {
                    c.eat(b',')?;
                }
                value(c, &RetTy::Int(crate::spec::Ty::I32), &RVal::Int(*v as i128))?;
            }
            Ok(())
        }
        (RetTy::Slice(_), RVal::U8s(vs)) => {
            for (i, v) in vs.iter().enumerate() {
                if i > 0 {
                    c.eat(b',')?;
                }
                value(c, &RetTy::Int(crate::spec::Ty::U8), &RVal::Int(*v as i128))?;
            }
            Ok(())
        }
        (RetTy::Slice(_), RVal::F64s(vs)) => {
            for (i, v) in vs.iter().enumerate() {
                if i > 0 {
                    c.eat(b',')?;
                }
                float(c, v.to_bits(), false)?;
            }
            Ok(())
        }
        (RetTy::Slice(_), RVal::Bools(vs)) => {
            for (i, v) in vs.iter().enumerate() {
                if i > 0 {
                    c.eat(b',')?;
                }
                c.eat(if *v { b'1' } else { b'0' })?;
            }
            Ok(())
        }
        (t, v) => Err(format!("harness: value {:?} does not belong to type {:?}", v, t)),
    }
}

/// `bytes` is the response without its terminating newline.
pub fn check_response(t: &RetTy, v: &RVal, bytes: &[u8]) -> Result<(), String> {
    let mut c = Cur { b: bytes, pos: 0 };
    value(&mut c, t, v)?;
    if c.pos != bytes.len() {
        return Err(format!("{} stray bytes after the decoded value", bytes.len() - c.pos));
    }
    Ok(())
}

/// Decodes a value of type `t` equal to `v` from the front of `bytes`; returns the number of bytes
/// it occupies (anything may follow).
pub fn decode_prefix(t: &RetTy, v: &RVal, bytes: &[u8]) -> Result<usize, String> {
    let mut c = Cur { b: bytes, pos: 0 };
    value(&mut c, t, v)?;
    Ok(c.pos)
}

/// Matches `written` against a sequence of expected responses (each followed by a newline): returns
/// how many of them `written` consists of exactly, or an error if it is not a whole number of the
/// expected responses in order.
pub fn match_response_sequence(expected: &[(RetTy, RVal)], written: &[u8]) -> Result<usize, String> {
    let mut pos = 0;
    let mut k = 0;
    while pos < written.len() {
        let Some((t, v)) = expected.get(k) else {
            return Err(format!("{} bytes beyond the last expected response", written.len() - pos));
        };
        let n = decode_prefix(t, v, &written[pos..]).map_err(|e| format!("response #{}: {}", k + 1, e))?;
        pos += n;
        if written.get(pos) != Some(&b'\n') {
            return Err(format!("response #{} is not followed by a newline", k + 1));
        }
        pos += 1;
        k += 1;
    }
    Ok(k)
}

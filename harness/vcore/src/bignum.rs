//! Minimal unsigned big integers and the exact "is this float the correctly rounded value of this
//! decimal literal" predicate (round to nearest, ties to even). Independent of the standard
//! library's float parser/printer, which is what the implementation under test uses.

use std::cmp::Ordering;

#[derive(Clone, Debug, PartialEq, Eq)]
pub struct Big(Vec<u32>); // little endian, no trailing zero limbs

impl Big {
    pub fn zero() -> Big {
        Big(Vec::new())
    }
    pub fn from_u128(mut v: u128) -> Big {
        let mut limbs = Vec::new();
        while v > 0 {
            limbs.push(v as u32);
            v >>= 32;
        }
        Big(limbs)
    }
    pub fn is_zero(&self) -> bool {
        self.0.is_empty()
    }
    fn trim(&mut self) {
        while self.0.last() == Some(&0) {
            self.0.pop();
        }
    }
    pub fn mul_small(&mut self, m: u32) {
        let mut carry = 0u64;
        for limb in self.0.iter_mut() {
            let v = *limb as u64 * m as u64 + carry;
            *limb = v as u32;
            carry = v >> 32;
        }
        if carry > 0 {
            self.0.push(carry as u32);
        }
        self.trim();
    }
    pub fn add_small(&mut self, a: u32) {
        let mut carry = a as u64;
        for limb in self.0.iter_mut() {
            if carry == 0 {
                break;
            }
            let v = *limb as u64 + carry;
            *limb = v as u32;
            carry = v >> 32;
        }
        if carry > 0 {
            self.0.push(carry as u32);
        }
    }
    pub fn shl(&mut self, bits: u32) {
        if self.is_zero() || bits == 0 {
            return;
        }
        let limbs = (bits / 32) as usize;
        let rem = bits % 32;
        if rem > 0 {
            let mut carry = 0u32;
            for limb in self.0.iter_mut() {
                let v = ((*limb as u64) << rem) | carry as u64;
                *limb = v as u32;
                carry = (v >> 32) as u32;
            }
            if carry > 0 {
                self.0.push(carry);
            }
        }
        if limbs > 0 {
            let mut v = vec![0u32; limbs];
            v.extend_from_slice(&self.0);
            self.0 = v;
        }
    }
    pub fn mul_pow10(&mut self, mut e: u32) {
        while e >= 9 {
            self.mul_small(1_000_000_000);
            e -= 9;
        }
        if e > 0 {
            self.mul_small(10u32.pow(e));
        }
    }
    /// Parses a string of ASCII decimal digits.
    pub fn from_decimal(digits: &str) -> Big {
        let mut b = Big::zero();
        let bytes = digits.as_bytes();
        let mut i = 0;
        while i < bytes.len() {
            let end = (i + 9).min(bytes.len());
            let chunk = &digits[i..end];
            let v: u32 = chunk.parse().expect("decimal digits");
            b.mul_small(10u32.pow((end - i) as u32));
            b.add_small(v);
            i = end;
        }
        b.trim();
        b
    }
    pub fn cmp(&self, other: &Big) -> Ordering {
        if self.0.len() != other.0.len() {
            return self.0.len().cmp(&other.0.len());
        }
        for i in (0..self.0.len()).rev() {
            if self.0[i] != other.0[i] {
                return self.0[i].cmp(&other.0[i]);
            }
        }
        Ordering::Equal
    }
}

/// A decimal literal split into its parts: value = (-1)^neg * digits * 10^exp10.
#[derive(Clone, Debug)]
pub struct Decimal {
    pub neg: bool,
    /// all mantissa digits (integer and fraction part), may have leading zeros
    pub digits: String,
    pub exp10: i64,
    pub has_point: bool,
    pub has_exp: bool,
}

/// Parses `[+-]? digits? ('.' digits?)? ([eE] [+-]? digits)?` (at least one mantissa digit).
pub fn parse_decimal(s: &str) -> Option<Decimal> {
    let b = s.as_bytes();
    let mut i = 0;
    let mut neg = false;
    if i < b.len() && (b[i] == b'+' || b[i] == b'-') {
        neg = b[i] == b'-';
        i += 1;
    }
    let mut digits = String::new();
    while i < b.len() && b[i].is_ascii_digit() {
        digits.push(b[i] as char);
        i += 1;
    }
    let mut frac_len = 0i64;
    let mut has_point = false;
    if i < b.len() && b[i] == b'.' {
        has_point = true;
        i += 1;
        while i < b.len() && b[i].is_ascii_digit() {
            digits.push(b[i] as char);
            frac_len += 1;
            i += 1;
        }
    }
    if digits.is_empty() {
        return None;
    }
    let mut exp = 0i64;
    let mut has_exp = false;
    if i < b.len() && (b[i] == b'e' || b[i] == b'E') {
        has_exp = true;
        i += 1;
        let mut eneg = false;
        if i < b.len() && (b[i] == b'+' || b[i] == b'-') {
            eneg = b[i] == b'-';
            i += 1;
        }
        let start = i;
        while i < b.len() && b[i].is_ascii_digit() {
            exp = exp.saturating_mul(10).saturating_add((b[i] - b'0') as i64);
            i += 1;
        }
        if i == start {
            return None;
        }
        if eneg {
            exp = -exp;
        }
    }
    if i != b.len() {
        return None;
    }
    Some(Decimal {
        neg,
        digits,
        exp10: exp.saturating_sub(frac_len),
        has_point,
        has_exp,
    })
}

impl Decimal {
    pub fn is_zero(&self) -> bool {
        self.digits.bytes().all(|c| c == b'0')
    }
    /// number of significant digits (without leading zeros)
    pub fn sig_digits(&self) -> usize {
        self.digits.trim_start_matches('0').len()
    }
    /// The exact integer value if the literal denotes an integer of moderate size.
    pub fn as_integer(&self) -> Option<i128> {
        let d = self.digits.trim_start_matches('0');
        if d.is_empty() {
            return Some(0);
        }
        let mut digits = d.to_string();
        let mut e = self.exp10;
        while e < 0 {
            if digits.ends_with('0') {
                digits.pop();
                e += 1;
            }
            else {
                return None;
            }
        }
        if digits.is_empty() {
            return Some(0);
        }
        if digits.len() as i64 + e > 38 {
            return None;
        }
        let mut v: i128 = digits.parse().ok()?;
        for _ in 0..e {
            v = v.checked_mul(10)?;
        }
        Some(if self.neg { -v } else { v })
    }
}

/// compares digits * 10^e10 with k * 2^f
fn cmp_scaled(digits: &Big, e10: i64, k: u128, f: i64) -> Ordering {
    let mut lhs = digits.clone();
    let mut rhs = Big::from_u128(k);
    if e10 >= 0 {
        lhs.mul_pow10(e10 as u32);
    }
    else {
        rhs.mul_pow10((-e10) as u32);
    }
    if f >= 0 {
        rhs.shl(f as u32);
    }
    else {
        lhs.shl((-f) as u32);
    }
    lhs.cmp(&rhs)
}

#[derive(Clone, Copy, Debug, PartialEq, Eq)]
pub enum Rounding {
    /// the float is the correctly rounded value of the decimal
    Correct,
    /// it is not
    Wrong,
    /// the literal is outside the range this predicate handles exactly
    Unknown,
}

/// Is the float with `mant_bits` explicit mantissa bits / `exp_bits` exponent bits and raw
/// representation `bits` the correctly rounded (nearest, ties-to-even) value of `dec`?
/// Infinity is the correct result for magnitudes at or beyond the overflow threshold.
pub fn check_rounding(dec: &Decimal, bits: u64, mant_bits: u32, exp_bits: u32) -> Rounding {
    if dec.digits.len() > 1300 || dec.exp10.abs() > 1600 {
        return Rounding::Unknown;
    }
    let sign = (bits >> (mant_bits + exp_bits)) & 1 == 1;
    let exp_field = ((bits >> mant_bits) & ((1u64 << exp_bits) - 1)) as i64;
    let frac = bits & ((1u64 << mant_bits) - 1);
    let max_exp_field = (1i64 << exp_bits) - 1;
    let bias = (1i64 << (exp_bits - 1)) - 1;
    let digits = Big::from_decimal(dec.digits.trim_start_matches('0'));
    if digits.is_zero() {
        // zero: either sign of zero is numerically exact
        return if exp_field == 0 && frac == 0 { Rounding::Correct } else { Rounding::Wrong };
    }
    if sign != dec.neg {
        return Rounding::Wrong;
    }
    if exp_field == max_exp_field {
        if frac != 0 {
            return Rounding::Wrong; // NaN
        }
        // infinity is correct iff |x| >= (2^(p+1) - 1) * 2^(emax - p - 1), p = mant_bits
        let k = (1u128 << (mant_bits + 2)) - 1;
        let f = (max_exp_field - 1 - bias) - mant_bits as i64 - 1;
        return match cmp_scaled(&digits, dec.exp10, k, f) {
            Ordering::Less => Rounding::Wrong,
            _ => Rounding::Correct,
        };
    }
    let (m, e): (u128, i64) = if exp_field == 0 {
        (frac as u128, 1 - bias - mant_bits as i64)
    }
    else {
        ((frac | (1u64 << mant_bits)) as u128, exp_field - bias - mant_bits as i64)
    };
    let even = m % 2 == 0;
    // upper midpoint (2m+1) * 2^(e-1)
    let up = cmp_scaled(&digits, dec.exp10, 2 * m + 1, e - 1);
    let up_ok = match up {
        Ordering::Less => true,
        Ordering::Equal => even,
        Ordering::Greater => false,
    };
    if !up_ok {
        return Rounding::Wrong;
    }
    // lower midpoint
    let low = if m == 0 {
        Ordering::Greater // x > 0 >= lower bound; zero result is judged by the upper midpoint only
    }
    else if exp_field > 1 && frac == 0 {
        cmp_scaled(&digits, dec.exp10, 4 * m - 1, e - 2)
    }
    else {
        cmp_scaled(&digits, dec.exp10, 2 * m - 1, e - 1)
    };
    let low_ok = match low {
        Ordering::Greater => true,
        Ordering::Equal => even,
        Ordering::Less => false,
    };
    if low_ok {
        Rounding::Correct
    }
    else {
        Rounding::Wrong
    }
}

pub fn check_f64(dec: &Decimal, bits: u64) -> Rounding {
    check_rounding(dec, bits, 52, 11)
}

pub fn check_f32(dec: &Decimal, bits: u32) -> Rounding {
    check_rounding(dec, bits as u64, 23, 8)
}

/// Exact decimal expansion of m * 2^e (m > 0) as a decimal literal string.
pub fn exact_decimal(m: u128, e: i64) -> String {
    // m * 2^e = m * 5^(-e) / 10^(-e) for e < 0
    if e >= 0 {
        let mut b = Big::from_u128(m);
        b.shl(e as u32);
        return big_to_decimal(&b);
    }
    let mut b = Big::from_u128(m);
    for _ in 0..(-e) {
        b.mul_small(5);
    }
    let s = big_to_decimal(&b);
    let k = (-e) as usize;
    if s.len() > k {
        format!("{}.{}", &s[..s.len() - k], &s[s.len() - k..])
    }
    else {
        format!("0.{}{}", "0".repeat(k - s.len()), s)
    }
}

pub fn big_to_decimal(b: &Big) -> String {
    if b.is_zero() {
        return "0".to_string();
    }
    let mut limbs = b.0.clone();
    let mut chunks: Vec<u32> = Vec::new();
    while !limbs.is_empty() {
        let mut rem = 0u64;
        for limb in limbs.iter_mut().rev() {
            let v = (rem << 32) | *limb as u64;
            *limb = (v / 1_000_000_000) as u32;
            rem = v % 1_000_000_000;
        }
        chunks.push(rem as u32);
        while limbs.last() == Some(&0) {
            limbs.pop();
        }
    }
    let mut s = chunks.last().unwrap().to_string();
    for c in chunks.iter().rev().skip(1) {
        s.push_str(&format!("{:09}", c));
    }
    s
}

#[cfg(test)]
mod tests {
    use super::*;

    #[test]
    fn rounding_basics() {
        for s in ["1", "0.1", "1e23", "8.5", "123456789.125", "1e-320", "4.9e-324", "2.4e-324", "1.7976931348623157e308"] {
            let d = parse_decimal(s).unwrap();
            let v: f64 = s.parse().unwrap();
            assert_eq!(check_f64(&d, v.to_bits()), Rounding::Correct, "{}", s);
            let next = f64::from_bits(v.to_bits() + 1);
            assert_eq!(check_f64(&d, next.to_bits()), Rounding::Wrong, "{} next", s);
            let f: f32 = s.parse().unwrap();
            assert_eq!(check_f32(&d, f.to_bits()), Rounding::Correct, "{} f32", s);
        }
        let d = parse_decimal("1e400").unwrap();
        assert_eq!(check_f64(&d, f64::INFINITY.to_bits()), Rounding::Correct);
        assert_eq!(check_f64(&d, f64::MAX.to_bits()), Rounding::Wrong);
        let d = parse_decimal("2.4e-324").unwrap();
        assert_eq!(check_f64(&d, 0), Rounding::Correct);
        let d = parse_decimal("2.5e-324").unwrap();
        assert_eq!(check_f64(&d, 1), Rounding::Correct);
        assert_eq!(check_f64(&d, 0), Rounding::Wrong);
    }

    #[test]
    fn exact_expansion() {
        assert_eq!(exact_decimal(1, -1), "0.5");
        assert_eq!(exact_decimal(3, -2), "0.75");
        assert_eq!(exact_decimal(5, 3), "40");
        let s = exact_decimal(1, -1074);
        let d = parse_decimal(&s).unwrap();
        assert_eq!(check_f64(&d, 1), Rounding::Correct);
    }
}

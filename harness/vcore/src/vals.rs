//! Tape-driven generation of handler return values for every response type.

use crate::rval::RVal;
use crate::spec::{RetTy, Ty};
use crate::tape::Tape;

pub fn gen_int(t: &mut Tape, ty: Ty) -> i128 {
    let (lo, hi) = ty.int_bounds();
    match t.weighted(&[3, 2, 2, 2, 3]) {
        0 => (t.below(10) as i128).min(hi),
        1 => hi - t.below(2) as i128,
        2 => lo + t.below(2) as i128,
        3 => {
            if lo < 0 {
                -(t.below(3) as i128)
            }
            else {
                t.below(3) as i128
            }
        }
        _ => {
            let span = (hi - lo) as u128 + 1;
            lo + ((t.u64() as u128 * span) >> 64) as i128
        }
    }
}

const SPECIAL_F64: [u64; 14] = [
    0x7ff8_0000_0000_0000, // NaN
    0xfff8_0000_0000_0001, // another NaN
    0x7ff0_0000_0000_0000, // +inf
    0xfff0_0000_0000_0000, // -inf
    0x0000_0000_0000_0000, // +0
    0x8000_0000_0000_0000, // -0
    0x0000_0000_0000_0001, // min subnormal
    0x000f_ffff_ffff_ffff, // max subnormal
    0x0010_0000_0000_0000, // min normal
    0x7fef_ffff_ffff_ffff, // max
    0xffef_ffff_ffff_ffff, // -max
    0x3ff0_0000_0000_0000, // 1
    0x3fb9_9999_9999_999a, // 0.1
    0x4340_0000_0000_0000, // 2^53
];

const SPECIAL_F32: [u32; 14] = [
    0x7fc0_0000, 0xffc0_0001, 0x7f80_0000, 0xff80_0000, 0x0000_0000, 0x8000_0000, 0x0000_0001, 0x007f_ffff,
    0x0080_0000, 0x7f7f_ffff, 0xff7f_ffff, 0x3f80_0000, 0x3dcc_cccd, 0x4b80_0000,
];

pub fn gen_f64_bits(t: &mut Tape) -> u64 {
    match t.weighted(&[2, 5, 2, 2]) {
        0 => ((t.below(2000) as f64 - 1000.0) / [1.0, 10.0, 100.0, 8.0][t.below(4)]).to_bits(),
        1 => t.u64(),
        2 => SPECIAL_F64[t.below(SPECIAL_F64.len())],
        _ => {
            // moderate exponent, random mantissa: "ordinary" measurement values
            let mant = t.u64() & 0x000f_ffff_ffff_ffff;
            let exp = (1023 - 40 + t.below(80)) as u64;
            let sign = (t.below(2) as u64) << 63;
            sign | (exp << 52) | mant
        }
    }
}

pub fn gen_f32_bits(t: &mut Tape) -> u32 {
    match t.weighted(&[2, 5, 2, 2]) {
        0 => ((t.below(2000) as f32 - 1000.0) / [1.0, 10.0, 100.0, 8.0][t.below(4)]).to_bits(),
        1 => t.raw(),
        2 => SPECIAL_F32[t.below(SPECIAL_F32.len())],
        _ => {
            let mant = t.raw() & 0x007f_ffff;
            let exp = (127 - 20 + t.below(40)) as u32;
            let sign = (t.below(2) as u32) << 31;
            sign | (exp << 23) | mant
        }
    }
}

pub fn gen_text(t: &mut Tape, max_bytes: usize) -> String {
    let n = match t.weighted(&[2, 4, 2]) {
        0 => 0,
        1 => t.range(1, 8),
        _ => t.range(1, 40),
    };
    let mut s = String::new();
    for _ in 0..n {
        let piece: &str = match t.weighted(&[5, 4, 2, 1, 1]) {
            0 => ["a", "B", "z", "0", "9", "_", " "][t.below(7)],
            1 => ["\"", "\"\"", ",", ";", "'", "#", ":"][t.below(7)],
            2 => ["\n", "\r", "\t", "\0"][t.below(4)],
            3 => ["\u{e9}", "\u{20ac}", "\u{1f600}", "\u{4e2d}"][t.below(4)],
            _ => ["*", "?", "\\", "%", "{}"][t.below(5)],
        };
        if s.len() + piece.len() > max_bytes {
            break;
        }
        s.push_str(piece);
    }
    s
}

pub fn gen_bytes(t: &mut Tape, max: usize) -> Vec<u8> {
    let n = match t.weighted(&[4, 3, 2]) {
        0 => [0usize, 1, 9, 10, 11, 99, 100, 101, 999, 1000, 1001][t.below(11)],
        1 => t.below(16),
        _ => t.below(max + 1),
    }
    .min(max);
    let mut v = Vec::with_capacity(n);
    // long blocks: one random run repeated (cheap), short ones byte by byte
    if n > 64 {
        let seed: Vec<u8> = (0..16).map(|_| t.byte()).collect();
        for i in 0..n {
            v.push(seed[i % 16].wrapping_add((i / 16) as u8));
        }
    }
    else {
        for _ in 0..n {
            v.push(match t.weighted(&[3, 2]) {
                0 => t.byte(),
                _ => b"\n\",;#'\0"[t.below(7)],
            });
        }
    }
    v
}

pub fn gen_value(t: &mut Tape, ty: &RetTy) -> RVal {
    match ty {
        RetTy::None => RVal::None,
        RetTy::Int(i) => RVal::Int(gen_int(t, *i)),
        RetTy::F32 => RVal::F32(gen_f32_bits(t)),
        RetTy::F64 => RVal::F64(gen_f64_bits(t)),
        RetTy::Bool => RVal::Bool(t.chance(1, 2)),
        RetTy::Str | RetTy::SString => RVal::Str(gen_text(t, 200)),
        RetTy::HStr => RVal::Str(gen_text(t, 64)),
        RetTy::Arb => RVal::Bytes(gen_bytes(t, 3000)),
        RetTy::Chars => {
            let n = t.range(1, 12);
            let mut s = String::new();
            for i in 0..n {
                let c = if i == 0 { b"ABCXYZdef"[t.below(9)] } else { b"ABCXYZdef0189_"[t.below(14)] };
                s.push(c as char);
            }
            RVal::Str(s)
        }
        RetTy::Err => RVal::Err(
            match t.weighted(&[2, 1, 1, 2]) {
                0 => -(t.below(500) as i16),
                1 => i16::MIN,
                2 => i16::MAX,
                _ => t.below(1000) as i16,
            },
            t.below(8),
        ),
        RetTy::Tup(v) => RVal::List(v.iter().map(|x| gen_value(t, x)).collect()),
        RetTy::HVec(e) => {
            let n = [0usize, 1, 2, 3, 8][t.below(5)];
            RVal::List((0..n).map(|_| gen_value(t, e)).collect())
        }
        RetTy::Slice(e) => {
            let n = [0usize, 1, 2, 5, 17][t.below(5)];
            match &**e {
                RetTy::Int(Ty::I32) => RVal::I32s((0..n).map(|_| gen_int(t, Ty::I32) as i32).collect()),
                RetTy::Int(Ty::U8) => RVal::U8s((0..n).map(|_| gen_int(t, Ty::U8) as u8).collect()),
                RetTy::F64 => RVal::F64s((0..n).map(|_| f64::from_bits(gen_f64_bits(t))).collect()),
                _ => RVal::Bools((0..n).map(|_| t.chance(1, 2)).collect()),
            }
        }
    }
}

/// Is the value non-trivial by the rule of C04 (extreme, non-finite or subnormal float, string with
/// quote or separator, block whose length sits at a digit-count boundary, composite)?
pub fn is_nontrivial(ty: &RetTy, v: &RVal) -> bool {
    match (ty, v) {
        (RetTy::Int(t), RVal::Int(i)) => {
            let (lo, hi) = t.int_bounds();
            *i == lo || *i == hi
        }
        (RetTy::F32, RVal::F32(b)) => {
            let f = f32::from_bits(*b);
            !f.is_finite() || f.is_subnormal() || f == 0.0
        }
        (RetTy::F64, RVal::F64(b)) => {
            let f = f64::from_bits(*b);
            !f.is_finite() || f.is_subnormal() || f == 0.0
        }
        (_, RVal::Str(s)) => s.contains('"') || s.contains(',') || s.contains(';') || s.contains('\n'),
        (_, RVal::Bytes(b)) => {
            let n = b.len();
            n > 0 && n.to_string().len() != (n - 1).to_string().len() || n == 0
        }
        (RetTy::Tup(_) | RetTy::HVec(_) | RetTy::Slice(_) | RetTy::Err, _) => true,
        _ => false,
    }
}

//! Stream-level case generation shared by C05, C07 and C13.

use crate::gen::{self, Env, GenCfg, Index};
use crate::rval::{self, RVal};
use crate::spec::{Model, RetTy};
use crate::tape::Tape;

/// One representative per lexical class the grammar distinguishes.
pub const ALPHABET: &[u8] = b"AEH*:;, \n?#012'\".e+";

pub const GARBAGE: &[&[u8]] = &[
    b"'", b"\"", b"#19", b"#1", b"#", b"\xff", b"\x80\x80", b"@", b"::", b";;", b",", b"?", b"*", b"#H", b"#Q8",
    b"#B2", b"1e", b"1e+", b"-", b".", b"#90000000001", b"#10", b"#0", b"\x00", b"\r", b"A 1,2,3,4,5,6,7,8,9,10,11",
    b"A:H 1,2,3,4,5,6,7,8,9,0,1,2", b"SYST:ERR?", b"SYST:ERR:COUN?", b"SYST:VERS?", b"*E?", b"AE?", b"H:A?",
    b"E:E? 64", b"E:E? 9", b"A:A? 'x'",
    // numeric extremes and odd spellings for every numeric parameter type of the fixture
    b"HE:E -9223372036854775808,'a'", b"HE:E -32768,'a'", b"HE:E -32769,'a'", b"HE:E -0,'a'", b"A 18446744073709551616",
    b"A 255", b"A 256", b"A -1", b"A 1.", b"A .5", b"A 7.", b"A 1e1", b"A #HFFFFFFFFFFFFFFFFFF", b"A #B11111111", b"A #Q377",
    b"A +0000000000000000000001", b"H:A 1e400", b"H:A -1e-400", b"H:A 4.9e-324", b"H:A 1.7976931348623159e308", b"H:A -.0e-0",
    b"H:A 1.", b"H:A 00000000000000000000000000000000000000001e-9999999999", b"H:A 9e999999999999999999999",
    // very long mnemonics (beyond any fixed-size scratch buffer)
    b"AAAAAAAAAAAAAAAAAAAAAAAAAAAAAAAAAAAAAAAAAAAAAAAAAAAAAAAAAAAAAAAAAAAAAAAAAAAAAAAAAAAAAAAAAAAAAAAAAAAAAAAA 1",
    b"H:EEEEEEEEEEEEEEEEEEEEEEEEEEEEEEEEEEEEEEEEEEEEEEEEEEEEEEEEEEEEEEEEEEEEEEEEE?", b"*HHHHHHHHHHHHHHHHHHHHHHHHHHHHHHHHHHHHHHHHHHH?",
    b"E MAXIMUMMAXIMUMMAXIMUMMAXIMUMMAXIMUMMAXIMUMMAXIMUMMAXIMUMMAXIMUMMAXIMUM", b"H:H #3300",
    b"E:E? 255", b"E:E? 00", b"E 2", b"E ONN", b"H:H #10", b"H:H #9000000000", b"H:H #200", b"H:E ''", b"H:E \"\"",
];

pub struct StreamCase {
    pub stream: Vec<u8>,
    pub n: usize,
    pub cap: usize,
    pub reads: Vec<usize>,
    pub pauses: Vec<u8>,
    pub env: Env,
}

pub fn gen_reads(t: &mut Tape, len: usize, n: usize) -> Vec<usize> {
    let style = t.weighted(&[2, 2, 3, 1]);
    let mut reads = Vec::new();
    let mut total = 0;
    while total < len && reads.len() < 4 * len + 8 {
        let r = match style {
            0 => 1,
            1 => usize::MAX,
            2 => match t.weighted(&[3, 3, 2, 2, 1, 1]) {
                0 => 1,
                1 => t.range(1, 4),
                2 => t.range(1, n.max(1)),
                3 => usize::MAX,
                4 => 0,
                _ => t.range(1, 64),
            },
            _ => t.range(0, 3),
        };
        if r != usize::MAX {
            total += r;
        }
        else {
            total += n.max(1);
        }
        reads.push(r);
    }
    reads
}

pub fn gen_env(t: &mut Tape, model: &Model) -> Env {
    let mut env = Env::new(model, 4);
    for (i, d) in model.spec.decls.iter().enumerate() {
        env.rets[i] = gen_rval(t, &d.ret);
        if t.chance(1, 12) {
            env.fail[i] = Some(gen::FailSpec::Custom(-(t.below(500) as i16), t.below(8)));
        }
    }
    env
}

pub fn gen_rval(t: &mut Tape, r: &RetTy) -> RVal {
    match r {
        RetTy::Int(ty) => {
            let (lo, hi) = ty.int_bounds();
            match t.weighted(&[3, 1, 1]) {
                0 => RVal::Int((t.below(100) as i128).min(hi)),
                1 => RVal::Int(hi),
                _ => RVal::Int(lo),
            }
        }
        RetTy::Str | RetTy::SString => {
            let n = t.below(40);
            RVal::Str((0..n).map(|_| ['a', 'b', '"', 'c', ',', ';', ' ', '\'', '\u{e9}', '\u{20ac}', '\u{1f600}'][t.below(11)]).collect())
        }
        RetTy::Arb => {
            let n = [0usize, 1, 9, 10, 11, 60, 99, 100, 101][t.below(9)];
            RVal::Bytes((0..n).map(|_| t.byte()).collect())
        }
        RetTy::Tup(v) => RVal::List(v.iter().map(|x| gen_rval(t, x)).collect()),
        other => rval::default_rval(other),
    }
}

pub fn gen_stream_case(t: &mut Tape, model: &Model, ix: &Index, n_values: &[usize], cap_values: &[usize]) -> StreamCase {
    let env = gen_env(t, model);
    let mut stream = Vec::new();
    let segments = t.range(1, 6);
    let mut cfg = GenCfg::default();
    for _ in 0..segments {
        match t.weighted(&[5, 3, 2, 1]) {
            0 => {
                cfg.lit.newlines = t.chance(1, 4);
                gen::gen_message(t, ix, &cfg).render(&mut stream);
            }
            1 => {
                // a valid message with one byte-level mutation
                let mut m = gen::gen_message(t, ix, &cfg).rendered();
                let pos = t.below(m.len());
                match t.below(4) {
                    0 => {
                        m.remove(pos);
                    }
                    1 => m.insert(pos, ALPHABET[t.below(ALPHABET.len())]),
                    2 => m[pos] = t.byte(),
                    _ => {
                        let c = m[pos];
                        m.insert(pos, c);
                    }
                }
                stream.extend_from_slice(&m);
            }
            2 => {
                let k = t.range(1, 3);
                for _ in 0..k {
                    stream.extend_from_slice(GARBAGE[t.below(GARBAGE.len())]);
                    if t.chance(1, 3) {
                        stream.push(b' ');
                    }
                }
                if t.chance(3, 4) {
                    stream.push(b'\n');
                }
            }
            _ => {
                let k = t.range(1, 12);
                for _ in 0..k {
                    stream.push(t.byte());
                }
                if t.chance(1, 2) {
                    stream.push(b'\n');
                }
            }
        }
    }
    let n = pick_n(t, &stream, n_values);
    let cap = cap_values[t.below(cap_values.len())];
    let reads = gen_reads(t, stream.len(), n);
    let np = t.below(5);
    let pauses = (0..np).map(|_| t.below(3) as u8).collect();
    StreamCase {
        stream,
        n,
        cap,
        reads,
        pauses,
        env,
    }
}


/// Buffer size: mostly just large enough for the longest line of the stream (so that messages
/// execute and reads fill the buffer exactly), sometimes any size, sometimes too small.
pub fn pick_n(t: &mut Tape, stream: &[u8], n_values: &[usize]) -> usize {
    let longest = stream.split_inclusive(|b| *b == b'\n').map(|l| l.len()).max().unwrap_or(1);
    let fitting: Vec<usize> = n_values.iter().copied().filter(|n| *n >= longest).collect();
    match t.weighted(&[4, 2, 1]) {
        0 if !fitting.is_empty() => fitting[t.below(fitting.len().min(6))],
        2 => {
            let small: Vec<usize> = n_values.iter().copied().filter(|n| *n < longest).collect();
            if small.is_empty() { n_values[0] } else { small[t.below(small.len())] }
        }
        _ => n_values[t.below(n_values.len())],
    }
}

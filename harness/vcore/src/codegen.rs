//! Spec <-> JSON and Spec -> Rust source (an interface implemented through the real
//! `#[microscpi::interface]` macro whose handlers record into `vrun::State`).

use crate::spec::{Decl, RetTy, Spec, Ty};
use serde_json::{json, Value};

pub fn ret_to_json(r: &RetTy) -> Value {
    match r {
        RetTy::None => json!("none"),
        RetTy::Int(t) => json!(t.rust()),
        RetTy::F32 => json!("f32"),
        RetTy::F64 => json!("f64"),
        RetTy::Bool => json!("bool"),
        RetTy::Str => json!("str"),
        RetTy::HStr => json!("hstr"),
        RetTy::SString => json!("string"),
        RetTy::Arb => json!("arb"),
        RetTy::Chars => json!("chars"),
        RetTy::Err => json!("err"),
        RetTy::Tup(v) => json!({ "tup": v.iter().map(ret_to_json).collect::<Vec<_>>() }),
        RetTy::HVec(t) => json!({ "hvec": ret_to_json(t) }),
        RetTy::Slice(t) => json!({ "slice": ret_to_json(t) }),
    }
}

pub fn ret_from_json(v: &Value) -> RetTy {
    if let Some(s) = v.as_str() {
        return match s {
            "none" => RetTy::None,
            "f32" => RetTy::F32,
            "f64" => RetTy::F64,
            "bool" => RetTy::Bool,
            "str" => RetTy::Str,
            "hstr" => RetTy::HStr,
            "string" => RetTy::SString,
            "arb" => RetTy::Arb,
            "chars" => RetTy::Chars,
            "err" => RetTy::Err,
            other => RetTy::Int(Ty::from_name(other).expect("bad ret type")),
        };
    }
    if let Some(t) = v.get("tup") {
        return RetTy::Tup(t.as_array().unwrap().iter().map(ret_from_json).collect());
    }
    if let Some(t) = v.get("hvec") {
        return RetTy::HVec(Box::new(ret_from_json(t)));
    }
    if let Some(t) = v.get("slice") {
        return RetTy::Slice(Box::new(ret_from_json(t)));
    }
    panic!("bad ret json {}", v)
}

pub fn spec_to_json(s: &Spec) -> Value {
    json!({
        "name": s.name, "standard": s.standard, "errors": s.errors,
        "decls": s.decls.iter().map(|d| json!({
            "cmd": d.cmd,
            "params": d.params.iter().map(|t| t.rust()).collect::<Vec<_>>(),
            "ret": ret_to_json(&d.ret),
            "async": d.is_async,
        })).collect::<Vec<_>>(),
    })
}

pub fn spec_from_json(v: &Value) -> Spec {
    Spec {
        name: v["name"].as_str().unwrap_or("x").to_string(),
        standard: v["standard"].as_bool().unwrap_or(false),
        errors: v["errors"].as_bool().unwrap_or(false),
        decls: v["decls"]
            .as_array()
            .map(|a| {
                a.iter()
                    .map(|d| Decl {
                        cmd: d["cmd"].as_str().unwrap().to_string(),
                        params: d["params"]
                            .as_array()
                            .map(|p| p.iter().map(|t| Ty::from_name(t.as_str().unwrap()).unwrap()).collect())
                            .unwrap_or_default(),
                        ret: ret_from_json(&d["ret"]),
                        is_async: d["async"].as_bool().unwrap_or(false),
                    })
                    .collect()
            })
            .unwrap_or_default(),
    }
}

fn ret_rust_type(r: &RetTy) -> String {
    match r {
        RetTy::None => "()".into(),
        RetTy::Int(t) => t.rust().into(),
        RetTy::F32 => "f32".into(),
        RetTy::F64 => "f64".into(),
        RetTy::Bool => "bool".into(),
        RetTy::Str => "&str".into(),
        RetTy::HStr => "::heapless::String<64>".into(),
        RetTy::SString => "::std::string::String".into(),
        RetTy::Arb => "::microscpi::Arbitrary<'_>".into(),
        RetTy::Chars => "::microscpi::Characters<'_>".into(),
        RetTy::Err => "::microscpi::Error".into(),
        RetTy::Tup(v) => format!("({},)", v.iter().map(ret_rust_type).collect::<Vec<_>>().join(", "))
            .replace(",)", ")"),
        RetTy::HVec(t) => format!("::heapless::Vec<{}, 8>", ret_rust_type(t)),
        RetTy::Slice(t) => format!("&[{}]", ret_rust_type(t)),
    }
}

/// Rust expression producing a value of type `r` from the `&RVal` expression `v`.
fn ret_expr(r: &RetTy, v: &str) -> String {
    match r {
        RetTy::None => "()".into(),
        RetTy::Int(t) => format!("<{}>::try_from(::vrun::r_int({})).unwrap()", t.rust(), v),
        RetTy::F32 => format!("f32::from_bits(::vrun::r_f32({}))", v),
        RetTy::F64 => format!("f64::from_bits(::vrun::r_f64({}))", v),
        RetTy::Bool => format!("::vrun::r_bool({})", v),
        RetTy::Str => format!("::vrun::r_str({})", v),
        RetTy::HStr => format!("::heapless::String::<64>::try_from(::vrun::r_str({})).unwrap()", v),
        RetTy::SString => format!("::vrun::r_str({}).to_string()", v),
        RetTy::Arb => format!("::microscpi::Arbitrary(::vrun::r_bytes({}))", v),
        RetTy::Chars => format!("::microscpi::Characters(::vrun::r_str({}))", v),
        RetTy::Err => format!("::vrun::r_err({})", v),
        RetTy::Tup(items) => {
            let parts: Vec<String> = items
                .iter()
                .enumerate()
                .map(|(i, t)| ret_expr(t, &format!("(&::vrun::r_list({})[{}])", v, i)))
                .collect();
            format!("({})", parts.join(", "))
        }
        RetTy::HVec(t) => format!(
            "::vrun::r_list({}).iter().map(|x| {}).collect::<::heapless::Vec<_, 8>>()",
            v,
            ret_expr(t, "x")
        ),
        RetTy::Slice(t) => match &**t {
            RetTy::Int(Ty::I32) => format!("::vrun::r_i32s({})", v),
            RetTy::Int(Ty::U8) => format!("::vrun::r_u8s({})", v),
            RetTy::F64 => format!("::vrun::r_f64s({})", v),
            RetTy::Bool => format!("::vrun::r_bools({})", v),
            other => panic!("unsupported slice element {:?}", other),
        },
    }
}

/// Emits a module `pub mod <name>` containing `pub struct I` (generic over the error-queue
/// capacity `Q` iff the spec requests ErrorCommands), its handlers and `SPEC_JSON`.
pub fn emit_module(spec: &Spec) -> String {
    let mut s = String::new();
    let generics = if spec.errors { "<const Q: usize>" } else { "" };
    let ty_args = if spec.errors { "<Q>" } else { "" };
    s.push_str(&format!("#[allow(dead_code, unused_variables, unused_parens, clippy::all)]\npub mod {} {{\n", spec.name));
    s.push_str("    use ::microscpi as scpi;\n");
    if spec.errors {
        s.push_str("    pub struct I<const Q: usize> { pub st: ::vrun::State, pub queue: ::vrun::RecQueue<Q> }\n");
        s.push_str("    impl<const Q: usize> I<Q> { pub fn new() -> Self { let st = ::vrun::State::new(); let queue = ::vrun::RecQueue::with_log(st.log.clone()); I { st, queue } } }\n");
        s.push_str("    impl<const Q: usize> scpi::ErrorCommands for I<Q> { fn error_queue(&mut self) -> &mut impl scpi::ErrorQueue { &mut self.queue } }\n");
    }
    else {
        s.push_str("    pub struct I { pub st: ::vrun::State }\n");
        s.push_str("    impl I { pub fn new() -> Self { I { st: ::vrun::State::new() } } }\n");
        s.push_str("    impl scpi::ErrorHandler for I { fn handle_error(&mut self, error: scpi::Error) { self.st.on_error(error); } }\n");
    }
    if spec.standard {
        s.push_str(&format!("    impl{} scpi::StandardCommands for I{} {{}}\n", generics, ty_args));
    }
    let mut attrs = Vec::new();
    if spec.standard {
        attrs.push("StandardCommands");
    }
    if spec.errors {
        attrs.push("ErrorCommands");
    }
    if attrs.is_empty() {
        s.push_str("    #[scpi::interface]\n");
    }
    else {
        s.push_str(&format!("    #[scpi::interface({})]\n", attrs.join(", ")));
    }
    s.push_str(&format!("    impl{} I{} {{\n", generics, ty_args));
    for (id, d) in spec.decls.iter().enumerate() {
        // ordinary (non-#[scpi]) items between the handlers: a constructor-like function first, a
        // helper after every third handler
        if id == 0 {
            s.push_str("        pub fn plain_item_before_all_handlers() -> usize { 0 }\n");
        }
        if id % 3 == 2 {
            s.push_str(&format!("        pub fn plain_item_{}(&self) -> usize {{ {} }}\n", id, id));
        }
        let params: Vec<String> = d
            .params
            .iter()
            .enumerate()
            .map(|(i, t)| format!("a{}: {}", i, t.rust()))
            .collect();
        let avs: Vec<String> = (0..d.params.len()).map(|i| format!("::vrun::av(a{})", i)).collect();
        s.push_str(&format!("        #[scpi(cmd = \"{}\")]\n", d.cmd));
        s.push_str(&format!(
            "        pub {}fn h{}(&mut self{}{}) -> Result<{}, scpi::Error> {{\n",
            if d.is_async { "async " } else { "" },
            id,
            if params.is_empty() { "" } else { ", " },
            params.join(", "),
            ret_rust_type(&d.ret)
        ));
        s.push_str(&format!("            self.st.enter({}, vec![{}])?;\n", id, avs.join(", ")));
        if d.is_async {
            s.push_str("            self.st.pause().await;\n");
        }
        s.push_str(&format!("            self.st.done({});\n", id));
        if d.ret == RetTy::None {
            s.push_str("            Ok(())\n");
        }
        else {
            s.push_str(&format!(
                "            let v = &self.st.rets[{}];\n            Ok({})\n",
                id,
                ret_expr(&d.ret, "v")
            ));
        }
        s.push_str("        }\n");
    }
    s.push_str("    }\n");
    s.push_str(&format!(
        "    impl{} ::vrun::Fixture for I{} {{ fn new_fixture() -> Self {{ let mut i = Self::new(); i.st.with_spec(&::vrun::spec_of(SPEC_JSON)); i }} fn st(&mut self) -> &mut ::vrun::State {{ &mut self.st }} fn spec_json() -> &'static str {{ SPEC_JSON }} }}\n",
        generics, ty_args
    ));
    let js = serde_json::to_string(&spec_to_json(spec)).unwrap();
    s.push_str(&format!("    pub const SPEC_JSON: &str = r####\"{}\"####;\n", js));
    s.push_str("}\n");
    s
}

// -------------------------------------------------------------------------------------------------
// no_std / no-alloc flavour (C13)
// -------------------------------------------------------------------------------------------------

fn na_ret_type(r: &RetTy) -> String {
    match r {
        RetTy::Str => "&'static str".into(),
        RetTy::Arb => "::microscpi::Arbitrary<'static>".into(),
        RetTy::Chars => "::microscpi::Characters<'static>".into(),
        RetTy::Tup(v) => format!("({})", v.iter().map(na_ret_type).collect::<Vec<_>>().join(", ")),
        RetTy::HVec(t) => format!("::heapless::Vec<{}, 8>", na_ret_type(t)),
        RetTy::Slice(t) => format!("&'static [{}]", na_ret_type(t)),
        RetTy::SString => panic!("String responses allocate by definition; not part of the no-alloc fixture"),
        other => ret_rust_type(other),
    }
}

/// constant expression of the response type (depends on the declaration index only)
fn na_ret_expr(r: &RetTy, id: usize) -> String {
    match r {
        RetTy::None => "()".into(),
        RetTy::Int(t) => {
            let (_, hi) = t.int_bounds();
            if id % 2 == 0 { format!("{} as {}", (id as i128 * 7 + 1).min(hi), t.rust()) } else { format!("<{}>::MAX", t.rust()) }
        }
        RetTy::F32 => ["1.5e10f32", "-0.125f32", "f32::NAN", "3.4e38f32"][id % 4].into(),
        RetTy::F64 => ["1.0e-7f64", "-12345.678f64", "f64::INFINITY", "1.7976931348623157e308f64"][id % 4].into(),
        RetTy::Bool => (if id % 2 == 0 { "true" } else { "false" }).into(),
        RetTy::Str => "\"st\\\"r,;\"".into(),
        RetTy::HStr => "::heapless::String::<64>::try_from(\"hs\\\"x\").unwrap()".into(),
        RetTy::Arb => "::microscpi::Arbitrary(b\"\\x00\\n#;0123456789\")".into(),
        RetTy::Chars => "::microscpi::Characters(\"CHARS\")".into(),
        RetTy::Err => "::microscpi::Error::Custom(-321, \"custom \\\"e\\\"\")".into(),
        RetTy::Tup(v) => format!("({})", v.iter().enumerate().map(|(i, t)| na_ret_expr(t, id + i)).collect::<Vec<_>>().join(", ")),
        RetTy::HVec(t) => format!(
            "{{ let mut v = ::heapless::Vec::<_, 8>::new(); let _ = v.push({}); let _ = v.push({}); v }}",
            na_ret_expr(t, id),
            na_ret_expr(t, id + 1)
        ),
        RetTy::Slice(t) => match &**t {
            RetTy::Int(Ty::I32) => "&[1i32, -2, 2147483647]".into(),
            RetTy::Int(Ty::U8) => "&[0u8, 255]".into(),
            RetTy::F64 => "&[0.5f64, -1e300]".into(),
            _ => "&[true, false]".into(),
        },
        RetTy::SString => unreachable!(),
    }
}

/// Emits a `no_std`-compatible module: handlers record `(id, checksum of the arguments)` into a
/// fixed-capacity array and return constants; nothing in it allocates.
pub fn emit_module_noalloc(spec: &Spec) -> String {
    let mut s = String::new();
    s.push_str(&format!("#[allow(dead_code, unused_variables, unused_parens, clippy::all)]\npub mod {} {{\n", spec.name));
    s.push_str("    use ::microscpi as scpi;\n");
    // generic over the queue capacity: interface types with generic parameters are a shape of their own
    s.push_str("    pub struct I<const Q: usize> { pub calls: ::heapless::Vec<(u16, u32), 64>, pub dropped: u32, pub fail_mask: u64, pub queue: scpi::StaticErrorQueue<Q> }\n");
    s.push_str("    /// application-defined error type (every third handler returns it instead of scpi::Error)\n");
    s.push_str("    #[derive(Debug)]\n    pub struct AppErr(pub i16);\n");
    s.push_str("    impl ::core::fmt::Display for AppErr { fn fmt(&self, f: &mut ::core::fmt::Formatter<'_>) -> ::core::fmt::Result { write!(f, \"application error {}\", self.0) } }\n");
    s.push_str("    impl From<AppErr> for scpi::Error { fn from(e: AppErr) -> Self { scpi::Error::Custom(e.0, \"application \\\"error\\\"\") } }\n");
    s.push_str("    impl<const Q: usize> I<Q> {\n        pub fn new() -> Self { I { calls: ::heapless::Vec::new(), dropped: 0, fail_mask: 0, queue: scpi::StaticErrorQueue::new() } }\n");
    s.push_str("        fn failing(&mut self, id: u16, sum: u32) -> bool {\n            if self.calls.push((id, sum)).is_err() { self.dropped += 1; }\n            self.fail_mask >> (id % 64) & 1 == 1\n        }\n");
    s.push_str("        fn rec(&mut self, id: u16, sum: u32) -> Result<(), scpi::Error> {\n            if self.failing(id, sum) { Err(scpi::Error::Custom(-(id as i16) - 1, \"handler \\\"failed\\\"\")) } else { Ok(()) }\n        }\n");
    s.push_str("        fn rec_app(&mut self, id: u16, sum: u32) -> Result<(), AppErr> {\n            if self.failing(id, sum) { Err(AppErr(-(id as i16) - 1)) } else { Ok(()) }\n        }\n    }\n");
    s.push_str("    pub trait Sum { fn sum(&self) -> u32; }\n");
    for t in ["u8", "i8", "u16", "i16", "u32", "i32", "u64", "i64", "usize", "isize"] {
        s.push_str(&format!("    impl Sum for {} {{ fn sum(&self) -> u32 {{ (*self as u64 as u32) ^ ((*self as u64 >> 32) as u32) }} }}\n", t));
    }
    s.push_str("    impl Sum for f32 { fn sum(&self) -> u32 { self.to_bits() } }\n");
    s.push_str("    impl Sum for f64 { fn sum(&self) -> u32 { (self.to_bits() as u32) ^ ((self.to_bits() >> 32) as u32) } }\n");
    s.push_str("    impl Sum for bool { fn sum(&self) -> u32 { *self as u32 } }\n");
    s.push_str("    impl Sum for &str { fn sum(&self) -> u32 { self.as_bytes().iter().fold(self.len() as u32, |a, b| a.wrapping_mul(31).wrapping_add(*b as u32)) } }\n");
    s.push_str("    impl Sum for &[u8] { fn sum(&self) -> u32 { self.iter().fold(self.len() as u32, |a, b| a.wrapping_mul(31).wrapping_add(*b as u32)) } }\n");
    // user-defined parameter and response type (a keyword enum with its own conversions): the macro
    // accepts any parameter type with `TryInto<T> for &Value` and any response type with `Response`
    s.push_str("    #[derive(Clone, Copy, PartialEq, Debug)]\n    pub enum Mode { Off, On }\n");
    s.push_str("    impl<'a> TryFrom<&scpi::Value<'a>> for Mode {\n        type Error = scpi::Error;\n        fn try_from(v: &scpi::Value<'a>) -> Result<Mode, scpi::Error> {\n            match v {\n                scpi::Value::Characters(c) if c.eq_ignore_ascii_case(\"ON\") || c.eq_ignore_ascii_case(\"TRUE\") => Ok(Mode::On),\n                scpi::Value::Characters(c) if c.eq_ignore_ascii_case(\"OFF\") || c.eq_ignore_ascii_case(\"FALSE\") => Ok(Mode::Off),\n                scpi::Value::Decimal(\"1\") => Ok(Mode::On),\n                scpi::Value::Decimal(\"0\") => Ok(Mode::Off),\n                scpi::Value::Characters(_) | scpi::Value::Decimal(_) => Err(scpi::Error::IllegalParameterValue),\n                _ => Err(scpi::Error::DataTypeError),\n            }\n        }\n    }\n");
    s.push_str("    impl Sum for Mode { fn sum(&self) -> u32 { 7 + (*self == Mode::On) as u32 } }\n");
    s.push_str("    impl scpi::Response for Mode { async fn write_response(&self, f: &mut impl scpi::Write) -> Result<(), scpi::Error> { f.write_str(match self { Mode::On => \"ON\", Mode::Off => \"OFF\" }).await } }\n");
    s.push_str("    impl<const Q: usize> scpi::ErrorCommands for I<Q> { fn error_queue(&mut self) -> &mut impl scpi::ErrorQueue { &mut self.queue } }\n");
    s.push_str("    impl<const Q: usize> scpi::StandardCommands for I<Q> {}\n");
    s.push_str("    #[scpi::interface(StandardCommands, ErrorCommands)]\n    impl<const Q: usize> I<Q> {\n");
    for (id, d) in spec.decls.iter().enumerate() {
        // declarations under USER: take / return the user-defined type where the table says bool
        let user = d.cmd.starts_with("USER:");
        let params: Vec<String> = d.params.iter().enumerate().map(|(i, t)| format!("a{}: {}", i, if user && *t == Ty::Bool { "Mode".to_string() } else { t.rust().to_string() })).collect();
        let sums: Vec<String> = (0..d.params.len()).map(|i| format!("Sum::sum(&a{})", i)).collect();
        let sum_expr = if sums.is_empty() { "0u32".to_string() } else { sums.join(".wrapping_mul(33) ^ ") };
        let app = id % 3 == 1;
        if id % 4 == 0 {
            s.push_str(&format!("        pub fn plain_item_{}(&self) -> usize {{ {} }}\n", id, id));
        }
        s.push_str(&format!("        #[scpi(cmd = \"{}\")]\n", d.cmd));
        s.push_str(&format!(
            "        pub {}fn h{}(&mut self{}{}) -> Result<{}, {}> {{\n            self.{}({}, {})?;\n            Ok({})\n        }}\n",
            if d.is_async { "async " } else { "" },
            id,
            if params.is_empty() { "" } else { ", " },
            params.join(", "),
            if user && d.ret == RetTy::Bool { "Mode".to_string() } else { na_ret_type(&d.ret) },
            if app { "AppErr" } else { "scpi::Error" },
            if app { "rec_app" } else { "rec" },
            id,
            sum_expr,
            if user && d.ret == RetTy::Bool { (if id % 2 == 0 { "Mode::On" } else { "Mode::Off" }).to_string() } else { na_ret_expr(&d.ret, id) }
        ));
    }
    s.push_str("    }\n");
    let js = serde_json::to_string(&spec_to_json(spec)).unwrap();
    s.push_str(&format!("    pub const SPEC_JSON: &str = r####\"{}\"####;\n", js));
    s.push_str("}\n");
    s
}

//! Generation of declaration sets (interface specifications): collision-free sets for C01/C02/C06
//! and colliding pairs with their collision-free twins for C14.

use crate::spec::{parse_cmd, Decl, Model, RetTy, Spec, Ty, ALL_TYS};
use crate::tape::Tape;

fn gen_mnemonic(t: &mut Tape) -> String {
    // declared spelling: first character an upper-case letter (so that the short form is a legal
    // mnemonic), then upper/lower letters, digits, underscores
    let len = match t.weighted(&[4, 10, 6, 1]) {
        0 => t.range(1, 2),
        1 => t.range(3, 6),
        2 => t.range(5, 9),
        // longer than the 12 characters IEEE 488.2 allows for a mnemonic: the macro accepts them
        _ => t.range(12, 20),
    };
    let style = t.weighted(&[4, 2, 2, 1]);
    let mut s = String::new();
    s.push((b'A' + t.below(26) as u8) as char);
    for i in 1..len {
        let c = match style {
            // classic: upper-case head, lower-case tail
            0 => {
                if i < (len + 1) / 2 {
                    (b'A' + t.below(26) as u8) as char
                }
                else {
                    (b'a' + t.below(26) as u8) as char
                }
            }
            // non-prefix short form: letters of any case anywhere
            1 => {
                if t.chance(1, 2) {
                    (b'A' + t.below(26) as u8) as char
                }
                else {
                    (b'a' + t.below(26) as u8) as char
                }
            }
            // with digits and underscores
            2 => match t.weighted(&[3, 3, 2, 1]) {
                0 => (b'A' + t.below(26) as u8) as char,
                1 => (b'a' + t.below(26) as u8) as char,
                2 => (b'0' + t.below(10) as u8) as char,
                _ => '_',
            },
            // all upper case: short == long
            _ => (b'A' + t.below(26) as u8) as char,
        };
        s.push(c);
    }
    s
}

const QUERY_RETS: [fn() -> RetTy; 8] = [
    || RetTy::Int(Ty::I32),
    || RetTy::Int(Ty::U8),
    || RetTy::Bool,
    || RetTy::Str,
    || RetTy::Int(Ty::I64),
    || RetTy::Tup(vec![RetTy::Int(Ty::U16), RetTy::Str]),
    || RetTy::Chars,
    || RetTy::Arb,
];

fn gen_params(t: &mut Tape) -> Vec<Ty> {
    let n = match t.weighted(&[4, 4, 2, 1, 1]) {
        0 => 0,
        1 => 1,
        2 => t.range(2, 3),
        3 => t.range(4, 9),
        _ => 10,
    };
    (0..n).map(|_| ALL_TYS[t.below(ALL_TYS.len())]).collect()
}

fn gen_decl(t: &mut Tape, vocab: &[String], commons: &[String]) -> Decl {
    let query = t.chance(1, 2);
    if !commons.is_empty() && t.chance(1, 6) {
        let name = &commons[t.below(commons.len())];
        let cmd = format!("*{}{}", name, if query { "?" } else { "" });
        return Decl {
            cmd,
            params: if t.chance(1, 3) { gen_params(t) } else { vec![] },
            ret: if query { QUERY_RETS[t.below(QUERY_RETS.len())]() } else { RetTy::None },
            is_async: t.chance(1, 2),
        };
    }
    let depth = match t.weighted(&[3, 4, 3, 1]) {
        0 => 1,
        1 => 2,
        2 => 3,
        _ => 4,
    };
    let mut nodes: Vec<(String, bool)> = (0..depth).map(|_| (vocab[t.below(vocab.len())].clone(), t.chance(1, 4))).collect();
    // never all nodes optional
    if nodes.iter().all(|n| n.1) {
        let k = t.below(nodes.len());
        nodes[k].1 = false;
    }
    let cmd = nodes
        .iter()
        .map(|(n, opt)| if *opt { format!("[{}]", n) } else { n.clone() })
        .collect::<Vec<_>>()
        .join(":")
        + if query { "?" } else { "" };
    Decl {
        cmd,
        params: gen_params(t),
        ret: if query { QUERY_RETS[t.below(QUERY_RETS.len())]() } else { RetTy::None },
        is_async: t.chance(1, 2),
    }
}

pub struct GenInfo {
    /// candidates dropped because they collided with the set built so far
    pub skipped: usize,
}

/// A random collision-free declaration set.
pub fn gen_spec(t: &mut Tape, name: &str) -> (Spec, GenInfo) {
    let (standard, errors) = match t.below(4) {
        0 => (false, false),
        1 => (true, false),
        2 => (false, true),
        _ => (true, true),
    };
    let n_vocab = t.range(3, 6);
    let mut vocab: Vec<String> = Vec::new();
    for _ in 0..n_vocab {
        let m = gen_mnemonic(t);
        // siblings that share a prefix and then diverge (letter vs digit vs underscore vs end): the
        // situation in which abbreviations, sort orders and prefix comparisons go wrong
        if !vocab.is_empty() && t.chance(2, 5) {
            let base = vocab[t.below(vocab.len())].clone();
            let keep = t.range(1, base.len().min(4));
            let head: String = base.chars().take(keep).collect::<String>().to_ascii_uppercase();
            let tail = match t.below(5) {
                0 => format!("_{}", (b'A' + t.below(26) as u8) as char),
                1 => format!("{}", t.below(10)),
                2 => format!("{}{}", (b'A' + t.below(26) as u8) as char, (b'a' + t.below(26) as u8) as char),
                3 => format!("{}", (b'a' + t.below(26) as u8) as char),
                _ => String::new(),
            };
            let cand = format!("{}{}", head, tail);
            if !vocab.contains(&cand) {
                vocab.push(cand);
                continue;
            }
        }
        vocab.push(m);
    }
    if t.chance(1, 3) {
        // user declarations under SYSTem, next to the standard commands
        vocab.push("SYSTem".to_string());
        if t.chance(1, 2) {
            vocab.push("ERRor".to_string());
        }
    }
    let n_common = t.below(4);
    let commons: Vec<String> = (0..n_common)
        .map(|_| (0..3).map(|_| (b'A' + t.below(26) as u8) as char).collect())
        .collect();
    let mut spec = Spec {
        name: name.to_string(),
        standard,
        errors,
        decls: Vec::new(),
    };
    let want = t.range(6, 14);
    let mut skipped = 0;
    let mut attempts = 0;
    while spec.decls.len() < want && attempts < 60 {
        attempts += 1;
        let mut d = gen_decl(t, &vocab, &commons);
        // sometimes the other kind (command/query) of an existing node
        if !spec.decls.is_empty() && t.chance(1, 5) {
            let other = spec.decls[t.below(spec.decls.len())].clone();
            d.cmd = if other.is_query() { other.cmd.trim_end_matches('?').to_string() } else { format!("{}?", other.cmd) };
            if d.cmd.ends_with('?') {
                d.ret = QUERY_RETS[t.below(QUERY_RETS.len())]();
            }
            else {
                d.ret = RetTy::None;
            }
        }
        spec.decls.push(d);
        if Model::build(&spec).is_err() {
            spec.decls.pop();
            skipped += 1;
        }
    }
    if spec.decls.is_empty() {
        spec.decls.push(Decl::new("FALLback", &[], RetTy::None, false));
    }
    (spec, GenInfo { skipped })
}

// -------------------------------------------------------------------------------------------------
// C14: colliding pairs and their twins
// -------------------------------------------------------------------------------------------------

pub const COLLISION_KINDS: [&str; 14] = [
    "identical spelling",
    "short form written out",
    "long form in upper case",
    "optional first node vs plain",
    "optional last node vs parent",
    "optional middle node vs direct child",
    "two optionals meeting",
    "standard command redeclared",
    "query twin of a colliding command",
    "same long form, different short forms",
    "long form of one is the short form of the other",
    "same-kind pair separated by a declaration of the other kind",
    "letter case of a declaration changed",
    "common command in another letter case",
];

fn render_nodes(nodes: &[(String, bool)], query: bool) -> String {
    nodes
        .iter()
        .map(|(n, opt)| if *opt { format!("[{}]", n) } else { n.clone() })
        .collect::<Vec<_>>()
        .join(":")
        + if query { "?" } else { "" }
}

fn nodes_of(cmd: &str) -> (Vec<(String, bool)>, bool) {
    let (n, q) = parse_cmd(cmd);
    (n.into_iter().map(|d| (d.decl, d.optional)).collect(), q)
}

fn fresh(t: &mut Tape, avoid: &Spec) -> String {
    loop {
        let m = gen_mnemonic(t);
        let up = m.to_ascii_uppercase();
        if !avoid.decls.iter().any(|d| d.cmd.to_ascii_uppercase().contains(&up)) && m.len() >= 2 {
            return m;
        }
    }
}

pub struct Ambiguous {
    /// base set plus a colliding pair: must not compile
    pub ambiguous: Spec,
    /// same set with the pair minimally de-collided: must compile, both handlers reachable
    pub twin: Spec,
    pub kind: &'static str,
    /// indices of the pair in both specs
    pub pair: (usize, usize),
    /// the collision is only visible after expanding short/long forms or optional nodes
    pub needs_expansion: bool,
}

/// Adds one colliding pair of a drawn kind to a collision-free base set.
pub fn gen_ambiguous(t: &mut Tape, name: &str) -> Option<Ambiguous> {
    gen_ambiguous_kind(t, name, None)
}

/// `force_kind`: index into COLLISION_KINDS (the generators cycle through all kinds so that every
/// kind occurs in every round).
pub fn gen_ambiguous_kind(t: &mut Tape, name: &str, force_kind: Option<usize>) -> Option<Ambiguous> {
    let (mut base, _) = gen_spec(t, name);
    base.decls.truncate(8);
    let drawn = t.below(COLLISION_KINDS.len());
    let kind_idx = force_kind.map(|k| k % COLLISION_KINDS.len()).unwrap_or(drawn);
    let kind = COLLISION_KINDS[kind_idx];
    let a = fresh(t, &base);
    let b = fresh(t, &base);
    let c = fresh(t, &base);
    let lowerish = |s: &str| -> String {
        // make sure the mnemonic has a lower-case tail so that short != long
        let mut v: Vec<char> = s.chars().collect();
        let last = v.len() - 1;
        v[last] = v[last].to_ascii_lowercase();
        if !v[last].is_ascii_lowercase() {
            v.push('x');
        }
        v.into_iter().collect()
    };
    let a_l = lowerish(&a);
    let short_of = |s: &str| -> String { s.chars().filter(|c| !c.is_ascii_lowercase()).collect() };
    let query = t.chance(1, 2);
    let q = if query { "?" } else { "" };
    // (first, second, twin of second, needs expansion)
    let (first, second, twin_second, needs): (String, String, String, bool) = match kind_idx {
        0 => (format!("{}:{}{}", a, b, q), format!("{}:{}{}", a, b, q), format!("{}:{}{}", a, c, q), false),
        1 => (format!("{}:{}{}", a_l, b, q), format!("{}:{}{}", short_of(&a_l), b, q), format!("{}Z:{}{}", short_of(&a_l), b, q), true),
        2 => (
            format!("{}:{}{}", a_l, b, q),
            format!("{}:{}{}", a_l.to_ascii_uppercase(), b, q),
            format!("{}Z:{}{}", a_l.to_ascii_uppercase(), b, q),
            true,
        ),
        3 => (format!("[{}]:{}{}", a, b, q), format!("{}{}", b, q), format!("{}{}", c, q), true),
        4 => (format!("{}:[{}]{}", a, b, q), format!("{}{}", a, q), format!("{}{}", c, q), true),
        5 => (format!("{}:[{}]:{}{}", a, b, c, q), format!("{}:{}{}", a, c, q), format!("{}:{}Z{}", a, c, q), true),
        6 => (
            format!("{}:[{}]:{}{}", a, b, c, q),
            format!("{}:[{}Q]:{}{}", a, a, c, q),
            format!("{}:[{}Q]:{}Z{}", a, a, c, q),
            true,
        ),
        7 => {
            // needs the standard command to be requested
            if t.chance(1, 2) {
                base.errors = true;
                let s = ["SYSTem:ERRor?", "SYST:ERR:NEXT?", "SYSTEM:ERROR:COUNT?", "SYSTem:ERRor:COUNt?"][t.below(4)];
                ("".into(), s.to_string(), format!("{}:ERRor:OTHer?", a), s != "SYSTem:ERRor:COUNt?")
            }
            else {
                base.standard = true;
                let s = ["SYSTem:VERSion?", "SYST:VERS?"][t.below(2)];
                ("".into(), s.to_string(), format!("SYSTem:{}?", a), s != "SYSTem:VERSion?")
            }
        }
        8 => (format!("{}:{}?", a_l, b), format!("{}:{}?", short_of(&a_l), b), format!("{}:{}", short_of(&a_l), b), true),
        9 => {
            // VOLTage vs VOLTAGe: equal long forms, different short forms
            let up = a.to_ascii_uppercase();
            let up = if up.len() < 4 { format!("{}XYZW", up) } else { up };
            let cut1 = t.range(1, up.len() - 2);
            let cut2 = t.range(cut1 + 1, up.len() - 1);
            let v1 = format!("{}{}", &up[..cut1], up[cut1..].to_ascii_lowercase());
            let v2 = format!("{}{}", &up[..cut2], up[cut2..].to_ascii_lowercase());
            (format!("{}:{}{}", v1, b, q), format!("{}:{}{}", v2, b, q), format!("{}Z:{}{}", v2, b, q), true)
        }
        12 => {
            // ABCd vs AbCd / abcD ...: the long forms are equal ignoring case (the short forms need not be)
            let mut v: Vec<char> = a_l.chars().collect();
            let letters: Vec<usize> = (0..v.len()).filter(|i| v[*i].is_ascii_alphabetic()).collect();
            let flips = t.range(1, letters.len().min(3));
            for _ in 0..flips {
                let i = letters[t.below(letters.len())];
                v[i] = if v[i].is_ascii_lowercase() { v[i].to_ascii_uppercase() } else { v[i].to_ascii_lowercase() };
            }
            let flipped: String = v.into_iter().collect();
            (format!("{}:{}{}", a_l, b, q), format!("{}:{}{}", flipped, b, q), format!("{}Z:{}{}", flipped, b, q), true)
        }
        13 => {
            // *ABC vs *Abc: common commands are compared ignoring case at run time. The first letter
            // stays upper case so that the short form of the twin ('*' + capitals) is still a header
            let up = a.to_ascii_uppercase();
            let mut v: Vec<char> = up.chars().collect();
            let letters: Vec<usize> = (1..v.len()).filter(|i| v[*i].is_ascii_alphabetic()).collect();
            if letters.is_empty() {
                return None;
            }
            let flips = t.range(1, letters.len());
            for _ in 0..flips {
                let i = letters[t.below(letters.len())];
                v[i] = v[i].to_ascii_lowercase();
            }
            let mixed: String = v.into_iter().collect();
            (format!("*{}{}", up, q), format!("*{}{}", mixed, q), format!("*{}Z{}", mixed, q), true)
        }
        11 => {
            // command, query, command on one node (or the mirror): the middle declaration is added below
            (format!("{}:{}{}", a_l, b, q), format!("{}:{}{}", a_l, b, q), format!("{}:{}{}", a_l, c, q), false)
        }
        _ => {
            // ABCDef (short ABCD) vs ABcd (long ABCD)
            let up = a.to_ascii_uppercase();
            let up = if up.len() < 3 { format!("{}XY", up) } else { up };
            let cut = t.range(1, up.len() - 1);
            let longer = format!("{}{}", up, "ef");
            let shorter = format!("{}{}", &up[..cut], up[cut..].to_ascii_lowercase());
            (format!("{}:{}{}", longer, b, q), format!("{}:{}{}", shorter, b, q), format!("{}Z:{}{}", shorter, b, q), true)
        }
    };
    // the base must stay collision-free with the first declaration and the twin
    let mk = |cmd: &str, t: &mut Tape| Decl {
        cmd: cmd.to_string(),
        params: if t.chance(1, 2) { vec![] } else { gen_params(t) },
        ret: if cmd.ends_with('?') { QUERY_RETS[t.below(QUERY_RETS.len())]() } else { RetTy::None },
        is_async: t.chance(1, 2),
    };
    let mut amb = base.clone();
    let mut twin = base.clone();
    let i1 = if first.is_empty() {
        usize::MAX
    }
    else {
        let d = mk(&first, t);
        amb.decls.push(d.clone());
        twin.decls.push(d);
        amb.decls.len() - 1
    };
    if kind_idx == 11 {
        // the other kind on the same node, declared between the two colliding declarations
        let other = if query { format!("{}:{}", a_l, b) } else { format!("{}:{}?", a_l, b) };
        let d = mk(&other, t);
        amb.decls.push(d.clone());
        twin.decls.push(d);
    }
    if Model::build(&amb).is_err() {
        return None; // base + first already collide: not the shape we want
    }
    let d2 = mk(&second, t);
    let mut d2t = d2.clone();
    d2t.cmd = twin_second.clone();
    if d2t.cmd.ends_with('?') != d2.cmd.ends_with('?') {
        d2t.ret = if d2t.cmd.ends_with('?') { QUERY_RETS[0]() } else { RetTy::None };
    }
    // position of the second declaration: before or after the first
    if i1 != usize::MAX && kind_idx != 11 && t.chance(1, 2) {
        amb.decls.insert(i1, d2);
        twin.decls.insert(i1, d2t);
    }
    else {
        amb.decls.push(d2);
        twin.decls.push(d2t);
    }
    let pair = (amb.decls.len() - 2, amb.decls.len() - 1);
    if Model::build(&amb).is_ok() {
        return None; // not ambiguous after all
    }
    if Model::build(&twin).is_err() {
        return None; // the twin must be collision-free
    }
    let _ = nodes_of;
    let _ = render_nodes;
    amb.name = name.to_string();
    twin.name = name.to_string();
    Some(Ambiguous {
        ambiguous: amb,
        twin,
        kind,
        pair,
        needs_expansion: needs,
    })
}

/// A declaration set with more handlers than fit any one-byte index (300 + standard commands):
/// `BANK<k>:C<j>` commands and queries.
pub fn big_spec(name: &str) -> Spec {
    let mut decls = Vec::new();
    for k in 0..300usize {
        let bank = ["ALPHa", "BETA", "GAMMa", "DELTa", "EPSilon"][k % 5];
        let cmd = format!("{}:C{}x{}", bank, k / 5, if k % 2 == 0 { "" } else { "?" });
        decls.push(Decl {
            cmd,
            params: if k % 7 == 0 { vec![Ty::U16] } else { vec![] },
            ret: if k % 2 == 0 { RetTy::None } else { RetTy::Int(Ty::U16) },
            is_async: k % 3 == 0,
        });
    }
    Spec {
        name: name.to_string(),
        standard: true,
        errors: true,
        decls,
    }
}

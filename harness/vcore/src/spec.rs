//! Interface specifications (declaration sets) and the spec-level reference model of header
//! resolution. Nothing here shares code with microscpi or its macro: it is the literal reading of
//! properties C01/C02/C14.

use std::collections::{BTreeMap, BTreeSet};

#[derive(Clone, Copy, Debug, PartialEq, Eq, Hash, PartialOrd, Ord)]
pub enum Ty {
    U8,
    I8,
    U16,
    I16,
    U32,
    I32,
    U64,
    I64,
    Usize,
    Isize,
    F32,
    F64,
    Bool,
    Str,
    Bytes,
}

pub const INT_TYS: [Ty; 10] = [
    Ty::U8,
    Ty::I8,
    Ty::U16,
    Ty::I16,
    Ty::U32,
    Ty::I32,
    Ty::U64,
    Ty::I64,
    Ty::Usize,
    Ty::Isize,
];

pub const ALL_TYS: [Ty; 15] = [
    Ty::U8,
    Ty::I8,
    Ty::U16,
    Ty::I16,
    Ty::U32,
    Ty::I32,
    Ty::U64,
    Ty::I64,
    Ty::Usize,
    Ty::Isize,
    Ty::F32,
    Ty::F64,
    Ty::Bool,
    Ty::Str,
    Ty::Bytes,
];

impl Ty {
    pub fn rust(self) -> &'static str {
        match self {
            Ty::U8 => "u8",
            Ty::I8 => "i8",
            Ty::U16 => "u16",
            Ty::I16 => "i16",
            Ty::U32 => "u32",
            Ty::I32 => "i32",
            Ty::U64 => "u64",
            Ty::I64 => "i64",
            Ty::Usize => "usize",
            Ty::Isize => "isize",
            Ty::F32 => "f32",
            Ty::F64 => "f64",
            Ty::Bool => "bool",
            Ty::Str => "&str",
            Ty::Bytes => "&[u8]",
        }
    }
    pub fn from_name(s: &str) -> Option<Ty> {
        ALL_TYS.iter().copied().find(|t| t.rust() == s)
    }
    pub fn is_int(self) -> bool {
        INT_TYS.contains(&self)
    }
    /// inclusive bounds of an integer type
    pub fn int_bounds(self) -> (i128, i128) {
        match self {
            Ty::U8 => (0, u8::MAX as i128),
            Ty::I8 => (i8::MIN as i128, i8::MAX as i128),
            Ty::U16 => (0, u16::MAX as i128),
            Ty::I16 => (i16::MIN as i128, i16::MAX as i128),
            Ty::U32 => (0, u32::MAX as i128),
            Ty::I32 => (i32::MIN as i128, i32::MAX as i128),
            Ty::U64 | Ty::Usize => (0, u64::MAX as i128),
            Ty::I64 | Ty::Isize => (i64::MIN as i128, i64::MAX as i128),
            _ => (0, 0),
        }
    }
}

/// Response type of a query handler (`None` for commands).
#[derive(Clone, Debug, PartialEq, Eq, Hash)]
pub enum RetTy {
    None,
    Int(Ty),
    F32,
    F64,
    Bool,
    /// `&str`
    Str,
    /// `heapless::String<64>`
    HStr,
    /// `std::string::String`
    SString,
    /// `microscpi::Arbitrary`
    Arb,
    /// `microscpi::Characters`
    Chars,
    /// `microscpi::Error`
    Err,
    Tup(Vec<RetTy>),
    /// `heapless::Vec<T, 8>`
    HVec(Box<RetTy>),
    /// `&[T]`
    Slice(Box<RetTy>),
}

#[derive(Clone, Debug, PartialEq, Eq, Hash)]
pub struct Decl {
    /// as written in `#[scpi(cmd = "...")]`
    pub cmd: String,
    pub params: Vec<Ty>,
    pub ret: RetTy,
    pub is_async: bool,
}

impl Decl {
    pub fn new(cmd: &str, params: &[Ty], ret: RetTy, is_async: bool) -> Decl {
        Decl {
            cmd: cmd.to_string(),
            params: params.to_vec(),
            ret,
            is_async,
        }
    }
    pub fn is_query(&self) -> bool {
        self.cmd.ends_with('?')
    }
}

#[derive(Clone, Debug, PartialEq, Eq, Hash)]
pub struct Spec {
    pub name: String,
    pub standard: bool,
    pub errors: bool,
    pub decls: Vec<Decl>,
}

/// One declared node of a command path.
#[derive(Clone, Debug, PartialEq, Eq)]
pub struct DNode {
    pub decl: String,
    pub optional: bool,
}

impl DNode {
    /// long form: the full declared spelling (compared ignoring ASCII case)
    pub fn long(&self) -> String {
        self.decl.to_ascii_uppercase()
    }
    /// short form: the declared spelling with its lower-case letters removed
    pub fn short(&self) -> String {
        self.decl
            .chars()
            .filter(|c| !c.is_ascii_lowercase())
            .collect::<String>()
            .to_ascii_uppercase()
    }
}

/// Splits a declaration string into nodes and the query flag.
pub fn parse_cmd(cmd: &str) -> (Vec<DNode>, bool) {
    let (body, query) = match cmd.strip_suffix('?') {
        Some(b) => (b, true),
        None => (cmd, false),
    };
    let nodes = body
        .split(':')
        .map(|p| p.trim())
        .filter(|p| !p.is_empty())
        .map(|p| {
            if p.starts_with('[') && p.ends_with(']') {
                DNode {
                    decl: p[1..p.len() - 1].to_string(),
                    optional: true,
                }
            }
            else {
                DNode {
                    decl: p.to_string(),
                    optional: false,
                }
            }
        })
        .collect();
    (nodes, query)
}

/// All spelled paths (upper-case) that reach a declaration: per node long / short / omitted.
pub fn expand(nodes: &[DNode]) -> Vec<Vec<String>> {
    let mut paths: Vec<Vec<String>> = vec![vec![]];
    for n in nodes {
        let mut next = Vec::new();
        for p in &paths {
            let mut forms = vec![n.long()];
            if n.short() != n.long() {
                forms.push(n.short());
            }
            for f in forms {
                let mut q = p.clone();
                q.push(f);
                next.push(q);
            }
            if n.optional {
                next.push(p.clone());
            }
        }
        paths = next;
    }
    paths
}

pub const STD_DECLS: [&str; 3] = ["SYSTem:VERSion?", "SYSTem:ERRor:[NEXT]?", "SYSTem:ERRor:COUNt?"];

#[derive(Clone, Copy, Debug, PartialEq, Eq, PartialOrd, Ord, Hash)]
pub enum Target {
    /// user declaration with this index
    User(usize),
    StdVersion,
    ErrNext,
    ErrCount,
}

#[derive(Debug)]
pub struct Collision {
    pub path: Vec<String>,
    pub query: bool,
    pub first: Target,
    pub second: Target,
}

#[derive(Clone, Debug)]
pub struct Model {
    pub spec: Spec,
    /// (spelled path in upper case, query) -> handler
    pub dict: BTreeMap<(Vec<String>, bool), Target>,
    /// every prefix of every spelled path (the nodes of the tree), root = []
    pub nodes: BTreeSet<Vec<String>>,
}

pub fn up(s: &str) -> String {
    s.to_ascii_uppercase()
}

impl Model {
    /// Builds the dictionary; `Err` if two handlers would be reachable by one spelling and kind
    /// (or one declaration reaches a spelling twice, or reaches the empty path).
    pub fn build(spec: &Spec) -> Result<Model, Collision> {
        let mut m = Model {
            spec: spec.clone(),
            dict: BTreeMap::new(),
            nodes: BTreeSet::new(),
        };
        m.nodes.insert(vec![]);
        let mut all: Vec<(String, Target)> = spec
            .decls
            .iter()
            .enumerate()
            .map(|(i, d)| (d.cmd.clone(), Target::User(i)))
            .collect();
        if spec.standard {
            all.push((STD_DECLS[0].to_string(), Target::StdVersion));
        }
        if spec.errors {
            all.push((STD_DECLS[1].to_string(), Target::ErrNext));
            all.push((STD_DECLS[2].to_string(), Target::ErrCount));
        }
        for (cmd, target) in all {
            let (nodes, query) = parse_cmd(&cmd);
            for path in expand(&nodes) {
                if path.is_empty() {
                    return Err(Collision {
                        path,
                        query,
                        first: target,
                        second: target,
                    });
                }
                for k in 1..=path.len() {
                    m.nodes.insert(path[..k].to_vec());
                }
                if let Some(prev) = m.dict.insert((path.clone(), query), target) {
                    return Err(Collision {
                        path,
                        query,
                        first: prev,
                        second: target,
                    });
                }
            }
        }
        Ok(m)
    }

    pub fn lookup(&self, path: &[String], query: bool) -> Option<Target> {
        self.dict.get(&(path.to_vec(), query)).copied()
    }

    pub fn node_exists(&self, path: &[String]) -> bool {
        self.nodes.contains(path)
    }

    pub fn decl(&self, t: Target) -> Option<&Decl> {
        match t {
            Target::User(i) => self.spec.decls.get(i),
            _ => None,
        }
    }

    /// Resolution of a header in path context `ctx` (upper-case spelled mnemonics).
    pub fn resolve(&self, ctx: &[String], h: &Header) -> Resolution {
        let spelled: Vec<String> = h.mnems.iter().map(|m| up(m)).collect();
        if h.is_common() {
            let target = self.lookup(&spelled, h.query);
            return Resolution {
                target,
                node_exists: self.node_exists(&spelled),
                new_ctx: None,
            };
        }
        let mut full: Vec<String> = if h.absolute { vec![] } else { ctx.to_vec() };
        full.extend(spelled);
        let target = self.lookup(&full, h.query);
        let node_exists = self.node_exists(&full);
        full.pop();
        Resolution {
            target,
            node_exists,
            new_ctx: Some(full),
        }
    }
}

#[derive(Clone, Debug, PartialEq, Eq)]
pub struct Resolution {
    pub target: Option<Target>,
    /// the spelled path names a node of the tree (of any kind): distinguishes an undefined header
    /// found while parsing from one found at execution; no property depends on the difference
    pub node_exists: bool,
    /// `None`: path context unchanged (common command)
    pub new_ctx: Option<Vec<String>>,
}

/// A program header as spelled in a message.
#[derive(Clone, Debug, PartialEq, Eq, Hash)]
pub struct Header {
    pub absolute: bool,
    /// mnemonics exactly as spelled (any case); a common command has one mnemonic starting with `*`
    pub mnems: Vec<String>,
    pub query: bool,
}

impl Header {
    pub fn is_common(&self) -> bool {
        self.mnems.first().map(|m| m.starts_with('*')).unwrap_or(false)
    }
    pub fn render(&self) -> String {
        let mut s = String::new();
        if self.absolute {
            s.push(':');
        }
        s.push_str(&self.mnems.join(":"));
        if self.query {
            s.push('?');
        }
        s
    }
}

//! Check driver: argument handling, proptest-driven tape search, exhaustive enumeration over worker
//! threads, statistics, evidence files, replay files, regression replays, watchdog.

use std::cell::RefCell;
use std::collections::{BTreeMap, HashSet};
use std::hash::{Hash, Hasher};
use std::panic::{catch_unwind, AssertUnwindSafe};
use std::path::PathBuf;
use std::sync::atomic::{AtomicBool, Ordering};
use std::sync::{Arc, Mutex};
use std::time::Instant;

use proptest::strategy::{Strategy, ValueTree};
use proptest::test_runner::{Config, RngAlgorithm, RngSeed, TestCaseError, TestError, TestRunner};
use serde_json::{json, Value};

pub const VERIF_DIR: &str = "/verif";

#[derive(Clone, Copy, PartialEq, Eq, Debug)]
pub enum Tier {
    Quick,
    Thorough,
}

impl Tier {
    pub fn name(self) -> &'static str {
        match self {
            Tier::Quick => "quick",
            Tier::Thorough => "thorough",
        }
    }
    /// Select a tier-dependent amount of work.
    pub fn pick<T>(self, quick: T, thorough: T) -> T {
        match self {
            Tier::Quick => quick,
            Tier::Thorough => thorough,
        }
    }
}

pub fn hash_of<T: Hash + ?Sized>(v: &T) -> u64 {
    let mut h = std::collections::hash_map::DefaultHasher::new();
    v.hash(&mut h);
    h.finish()
}

/// Render bytes for humans (evidence samples, replay files).
pub fn esc(bytes: &[u8]) -> String {
    let mut s = String::new();
    for &b in bytes {
        match b {
            b'\n' => s.push_str("\\n"),
            b'\r' => s.push_str("\\r"),
            b'\t' => s.push_str("\\t"),
            b'\\' => s.push_str("\\\\"),
            0x20..=0x7e => s.push(b as char),
            _ => s.push_str(&format!("\\x{:02x}", b)),
        }
    }
    s
}

pub fn hex(bytes: &[u8]) -> String {
    bytes.iter().map(|b| format!("{:02x}", b)).collect()
}

pub fn unhex(s: &str) -> Vec<u8> {
    (0..s.len() / 2)
        .map(|i| u8::from_str_radix(&s[2 * i..2 * i + 2], 16).unwrap_or(0))
        .collect()
}

pub fn tape_to_json(tape: &[u32]) -> Value {
    Value::Array(tape.iter().map(|v| json!(*v)).collect())
}

pub fn tape_from_json(v: &Value) -> Vec<u32> {
    v.as_array()
        .map(|a| a.iter().map(|x| x.as_u64().unwrap_or(0) as u32).collect())
        .unwrap_or_default()
}

// -------------------------------------------------------------------------------------------------
// Statistics
// -------------------------------------------------------------------------------------------------

#[derive(Default)]
pub struct Stats {
    pub evals: u64,
    pub nontrivial: HashSet<u64>,
    pub classes: BTreeMap<String, u64>,
    pub samples: Vec<Value>,
    sample_seen: u64,
    /// set while proptest shrinks: nothing is counted any more
    pub frozen: bool,
}

impl Stats {
    pub fn eval(&mut self) {
        if !self.frozen {
            self.evals += 1;
        }
    }
    pub fn evals_add(&mut self, n: u64) {
        if !self.frozen {
            self.evals += n;
        }
    }
    pub fn nontrivial<T: Hash + ?Sized>(&mut self, case: &T) {
        if !self.frozen {
            self.nontrivial.insert(hash_of(case));
        }
    }
    pub fn class(&mut self, name: &str) {
        if !self.frozen {
            *self.classes.entry(name.to_string()).or_insert(0) += 1;
        }
    }
    pub fn class_n(&mut self, name: &str, n: u64) {
        if !self.frozen {
            *self.classes.entry(name.to_string()).or_insert(0) += n;
        }
    }
    /// Keeps a deterministic, thinning selection of the offered samples (0,1,2,3, then powers of 4).
    pub fn sample(&mut self, f: impl FnOnce() -> Value) {
        if self.frozen {
            return;
        }
        let k = self.sample_seen;
        self.sample_seen += 1;
        let keep = k < 4 || (k.is_power_of_two() && k.trailing_zeros() % 2 == 0);
        if keep && self.samples.len() < 12 {
            self.samples.push(f());
        }
    }
    pub fn merge(&mut self, other: Stats) {
        self.evals += other.evals;
        self.nontrivial.extend(other.nontrivial);
        for (k, v) in other.classes {
            *self.classes.entry(k).or_insert(0) += v;
        }
        for s in other.samples {
            if self.samples.len() < 12 {
                self.samples.push(s);
            }
        }
    }
}

pub struct Failure {
    pub message: String,
    /// replayable description of the failing case (interpreted by the sub-check's replay closure)
    pub case: Value,
}

struct Part {
    name: String,
    rule: String,
    exhaustive: bool,
    stats: Stats,
    wall_s: f64,
}

// -------------------------------------------------------------------------------------------------
// Panic capture
// -------------------------------------------------------------------------------------------------

thread_local! {
    static LAST_PANIC: RefCell<String> = RefCell::new(String::new());
}

pub fn install_quiet_panic_hook() {
    std::panic::set_hook(Box::new(|info| {
        let msg = format!("{}", info);
        LAST_PANIC.with(|p| *p.borrow_mut() = msg);
    }));
}

/// Runs `f`, turning a panic into `Err("panic: ...")`.
pub fn guarded<T>(f: impl FnOnce() -> Result<T, String>) -> Result<T, String> {
    match catch_unwind(AssertUnwindSafe(f)) {
        Ok(r) => r,
        Err(_) => {
            let msg = LAST_PANIC.with(|p| p.borrow().clone());
            Err(format!("panic: {}", msg.replace('\n', " ")))
        }
    }
}

// -------------------------------------------------------------------------------------------------
// Watchdog
// -------------------------------------------------------------------------------------------------

struct Slot {
    since: Instant,
    case: Option<Value>,
    check: String,
}

pub struct Watch {
    slots: Vec<Mutex<Slot>>,
}

impl Watch {
    fn new(n: usize) -> Arc<Watch> {
        Arc::new(Watch {
            slots: (0..n)
                .map(|_| {
                    Mutex::new(Slot {
                        since: Instant::now(),
                        case: None,
                        check: String::new(),
                    })
                })
                .collect(),
        })
    }
    pub fn enter(&self, worker: usize, check: &str, case: impl FnOnce() -> Value) {
        let mut s = self.slots[worker].lock().unwrap();
        s.since = Instant::now();
        s.case = Some(case());
        if s.check != check {
            s.check = check.to_string();
        }
    }
    pub fn leave(&self, worker: usize) {
        let mut s = self.slots[worker].lock().unwrap();
        s.case = None;
    }
}

pub const HANG_LIMIT_S: u64 = 20;

// -------------------------------------------------------------------------------------------------
// Harness
// -------------------------------------------------------------------------------------------------

pub struct Harness {
    pub prop: String,
    pub tier: Tier,
    pub seed: u64,
    pub threads: usize,
    pub replay: Option<(PathBuf, Value)>,
    parts: Vec<Part>,
    failure: Option<(String, Failure, Option<PathBuf>)>,
    assumptions: Vec<String>,
    started: Instant,
    pub watch: Arc<Watch>,
    replay_matched: bool,
    known: Vec<(String, String)>,
    extra: BTreeMap<String, Value>,
}

fn arg_value(args: &[String], key: &str) -> Option<String> {
    args.iter()
        .position(|a| a == key)
        .and_then(|i| args.get(i + 1).cloned())
}

impl Harness {
    pub fn from_args(prop: &str) -> Harness {
        install_quiet_panic_hook();
        let args: Vec<String> = std::env::args().collect();
        let tier = match arg_value(&args, "--tier")
            .or_else(|| std::env::var("VERIF_TIER").ok())
            .as_deref()
        {
            Some("thorough") => Tier::Thorough,
            _ => Tier::Quick,
        };
        let seed = arg_value(&args, "--seed")
            .or_else(|| std::env::var("VERIF_SEED").ok())
            .and_then(|s| s.trim().parse::<u64>().ok())
            .unwrap_or(0);
        let threads = arg_value(&args, "--threads")
            .and_then(|s| s.parse().ok())
            .unwrap_or_else(|| {
                std::thread::available_parallelism()
                    .map(|n| n.get())
                    .unwrap_or(4)
                    .min(16)
            });
        let replay = arg_value(&args, "--replay").map(|p| {
            let text = std::fs::read_to_string(&p).unwrap_or_else(|e| {
                eprintln!("cannot read replay file {}: {}", p, e);
                std::process::exit(2)
            });
            let v: Value = serde_json::from_str(&text).unwrap_or_else(|e| {
                eprintln!("cannot parse replay file {}: {}", p, e);
                std::process::exit(2)
            });
            (PathBuf::from(p), v)
        });
        let watch = Watch::new(threads.max(1) + 1);
        let h = Harness {
            prop: prop.to_string(),
            tier,
            seed,
            threads,
            replay,
            parts: Vec::new(),
            failure: None,
            assumptions: Vec::new(),
            started: Instant::now(),
            watch,
            replay_matched: false,
            known: read_known_findings(prop),
            extra: BTreeMap::new(),
        };
        h.spawn_monitor();
        h
    }

    fn spawn_monitor(&self) {
        let watch = self.watch.clone();
        let prop = self.prop.clone();
        std::thread::spawn(move || loop {
            std::thread::sleep(std::time::Duration::from_millis(500));
            for slot in &watch.slots {
                let s = slot.lock().unwrap();
                if let Some(case) = &s.case {
                    if s.since.elapsed().as_secs() >= HANG_LIMIT_S {
                        // A case that normally takes microseconds has been running for 20 s.
                        let body = json!({
                            "property": prop, "check": s.check, "kind": "hang-candidate",
                            "case": case,
                        });
                        let path = write_replay(&prop, &format!("{}-hang", s.check), &body);
                        println!("HANG-CANDIDATE property={} replay={}", prop, path.display());
                        std::process::exit(3);
                    }
                }
            }
        });
    }

    pub fn assume(&mut self, text: &str) {
        self.assumptions.push(text.to_string());
    }

    pub fn extra(&mut self, key: &str, v: Value) {
        self.extra.insert(key.to_string(), v);
    }

    pub fn failed(&self) -> bool {
        self.failure.is_some()
    }

    pub fn is_replay(&self) -> bool {
        self.replay.is_some()
    }

    /// Registers and runs one sub-check.
    ///
    /// * `run` explores and returns the first failure, if any.
    /// * `replay` re-executes one saved case (from a replay or regression file).
    pub fn check(
        &mut self, name: &str, rule: &str, exhaustive: bool,
        run: impl FnOnce(&Harness, &mut Stats) -> Option<Failure>,
        replay: impl Fn(&Value) -> Result<(), String>,
    ) {
        if let Some((path, v)) = &self.replay {
            if v.get("check").and_then(|c| c.as_str()) == Some(name) {
                self.replay_matched = true;
                let case = v.get("case").cloned().unwrap_or(Value::Null);
                let res = guarded(|| replay(&case));
                match res {
                    Ok(()) => println!("replay {}: property held on this case", path.display()),
                    Err(msg) => {
                        println!("replay {}: {}", path.display(), msg);
                        println!("VIOLATION property={} replay={}", self.prop, path.display());
                        std::process::exit(1);
                    }
                }
            }
            return;
        }
        if self.failure.is_some() {
            return;
        }
        let t0 = Instant::now();
        // 1. committed regression cases of this sub-check
        let mut stats = Stats::default();
        let dir = PathBuf::from(VERIF_DIR).join("regress").join(&self.prop);
        let mut files: Vec<PathBuf> = std::fs::read_dir(&dir)
            .map(|rd| rd.filter_map(|e| e.ok().map(|e| e.path())).collect())
            .unwrap_or_default();
        files.sort();
        for f in files {
            if f.extension().and_then(|e| e.to_str()) != Some("json") {
                continue;
            }
            let Ok(text) = std::fs::read_to_string(&f) else { continue };
            let Ok(v) = serde_json::from_str::<Value>(&text) else { continue };
            if v.get("check").and_then(|c| c.as_str()) != Some(name) {
                continue;
            }
            let case = v.get("case").cloned().unwrap_or(Value::Null);
            stats.class("regression-replays");
            stats.eval();
            // regression cases run under the watchdog too (last slot)
            let slot = self.watch.slots.len() - 1;
            let wcase = case.clone();
            self.watch.enter(slot, name, || wcase);
            let res = guarded(|| replay(&case));
            self.watch.leave(slot);
            if let Err(msg) = res {
                self.failure = Some((
                    name.to_string(),
                    Failure {
                        message: format!("regression case {}: {}", f.display(), msg),
                        case,
                    },
                    Some(f.clone()),
                ));
                break;
            }
        }
        // 2. the search itself
        if self.failure.is_none() {
            if let Some(f) = run(self, &mut stats) {
                self.failure = Some((name.to_string(), f, None));
            }
        }
        self.parts.push(Part {
            name: name.to_string(),
            rule: rule.to_string(),
            exhaustive,
            stats,
            wall_s: t0.elapsed().as_secs_f64(),
        });
    }

    /// Adds the results of a step that ran outside this process (e.g. a compile-fail step driven by
    /// ./check) as a part of the evidence.
    pub fn external_part(&mut self, name: &str, rule: &str, exhaustive: bool, stats: Stats) {
        if self.replay.is_some() {
            return;
        }
        self.parts.push(Part {
            name: name.to_string(),
            rule: rule.to_string(),
            exhaustive,
            stats,
            wall_s: 0.0,
        });
    }

    /// proptest-driven search over choice tapes on all worker threads.
    ///
    /// `f(tape, stats)` interprets the tape, runs the case and returns `Err(description)` on a
    /// violation. The shrunk tape becomes the replay case `{"tape": [...]}`.
    pub fn tape_search(
        &self, name: &str, cases: u64, max_len: usize, stats: &mut Stats,
        f: impl Fn(&[u32], &mut Stats) -> Result<(), String> + Sync,
    ) -> Option<Failure> {
        let threads = self.threads.max(1);
        let stop = AtomicBool::new(false);
        let per = (cases + threads as u64 - 1) / threads as u64;
        let results: Vec<(Stats, Option<(Vec<u32>, String)>)> = std::thread::scope(|scope| {
            let handles: Vec<_> = (0..threads)
                .map(|w| {
                    let f = &f;
                    let stop = &stop;
                    let watch = self.watch.clone();
                    let seed = self.seed.wrapping_mul(1_000_003).wrapping_add(w as u64);
                    let name = name.to_string();
                    scope.spawn(move || {
                        let mut seed_bytes = [0u8; 32];
                        for (i, chunk) in seed_bytes.chunks_mut(8).enumerate() {
                            let v = seed
                                .wrapping_add(0x9e37_79b9_7f4a_7c15u64.wrapping_mul(i as u64 + 1))
                                .wrapping_mul(0xbf58_476d_1ce4_e5b9);
                            chunk.copy_from_slice(&(v ^ (v >> 29)).to_le_bytes());
                        }
                        let config = Config {
                            cases: per as u32,
                            failure_persistence: None,
                            rng_algorithm: RngAlgorithm::ChaCha,
                            rng_seed: RngSeed::Fixed(seed),
                            max_shrink_iters: 30000,
                            ..Config::default()
                        };
                        let _ = seed_bytes;
                        let mut runner = TestRunner::new(config);
                        let strategy = proptest::collection::vec(proptest::num::u32::ANY, 0..=max_len);
                        let stats = RefCell::new(Stats::default());
                        let my_fail = std::cell::Cell::new(false);
                        let result = runner.run(&strategy, |tape| {
                            if stop.load(Ordering::Relaxed) && !my_fail.get() {
                                return Ok(());
                            }
                            watch.enter(w, &name, || json!({ "tape": tape_to_json(&tape) }));
                            let r = {
                                let mut st = stats.borrow_mut();
                                st.eval();
                                guarded(|| f(&tape, &mut st))
                            };
                            watch.leave(w);
                            match r {
                                Ok(()) => Ok(()),
                                Err(msg) => {
                                    my_fail.set(true);
                                    stats.borrow_mut().frozen = true;
                                    stop.store(true, Ordering::Relaxed);
                                    Err(TestCaseError::fail(msg))
                                }
                            }
                        });
                        let failure = match result {
                            Ok(()) => None,
                            Err(TestError::Fail(reason, tape)) => Some((tape, reason.message().to_string())),
                            Err(TestError::Abort(reason)) => {
                                eprintln!("proptest aborted: {}", reason.message());
                                std::process::exit(2);
                            }
                        };
                        (stats.into_inner(), failure)
                    })
                })
                .collect();
            handles.into_iter().map(|h| h.join().unwrap()).collect()
        });
        let mut failure = None;
        for (st, fl) in results {
            stats.merge(st);
            if failure.is_none() {
                if let Some((tape, msg)) = fl {
                    failure = Some(Failure {
                        message: msg,
                        case: json!({ "tape": tape_to_json(&tape) }),
                    });
                }
            }
        }
        failure
    }

    /// Exhaustive enumeration of `0..total` in chunks statically assigned to worker threads.
    /// `f(index, stats)` returns `Err((message, replay case))` on a violation; the violation with the
    /// smallest index is reported.
    pub fn enum_search(
        &self, name: &str, total: u64, stats: &mut Stats,
        f: impl Fn(u64, &mut Stats) -> Result<(), (String, Value)> + Sync,
    ) -> Option<Failure> {
        let threads = self.threads.max(1) as u64;
        let chunk: u64 = 256;
        let stop = AtomicBool::new(false);
        let results: Vec<(Stats, Option<(u64, String, Value)>)> = std::thread::scope(|scope| {
            let handles: Vec<_> = (0..threads)
                .map(|w| {
                    let f = &f;
                    let stop = &stop;
                    let watch = self.watch.clone();
                    let name = name.to_string();
                    scope.spawn(move || {
                        let mut st = Stats::default();
                        let mut failure = None;
                        let mut c = w;
                        'outer: while c * chunk < total {
                            if stop.load(Ordering::Relaxed) {
                                break;
                            }
                            let lo = c * chunk;
                            let hi = (lo + chunk).min(total);
                            for i in lo..hi {
                                watch.enter(w as usize, &name, || json!({ "index": i }));
                                st.eval();
                                let r = catch_unwind(AssertUnwindSafe(|| f(i, &mut st)));
                                watch.leave(w as usize);
                                let r = match r {
                                    Ok(r) => r,
                                    Err(_) => {
                                        let msg = LAST_PANIC.with(|p| p.borrow().clone());
                                        Err((
                                            format!("panic: {}", msg.replace('\n', " ")),
                                            json!({ "index": i }),
                                        ))
                                    }
                                };
                                if let Err((msg, case)) = r {
                                    failure = Some((i, msg, case));
                                    stop.store(true, Ordering::Relaxed);
                                    break 'outer;
                                }
                            }
                            c += threads;
                        }
                        (st, failure)
                    })
                })
                .collect();
            handles.into_iter().map(|h| h.join().unwrap()).collect()
        });
        let mut best: Option<(u64, String, Value)> = None;
        for (st, fl) in results {
            stats.merge(st);
            if let Some(f) = fl {
                if best.as_ref().map(|b| f.0 < b.0).unwrap_or(true) {
                    best = Some(f);
                }
            }
        }
        best.map(|(_, message, case)| Failure { message, case })
    }

    /// Writes evidence, prints the verdict and exits.
    pub fn finish(mut self) -> ! {
        if let Some((path, _)) = &self.replay {
            if !self.replay_matched {
                eprintln!("replay file {} does not name a sub-check of this binary", path.display());
                std::process::exit(2);
            }
            std::process::exit(0);
        }
        for (sig, text) in &self.known {
            println!("KNOWN-FINDING: property={} {} {}", self.prop, sig, text);
        }
        let mut evals = 0u64;
        let mut nontrivial = 0u64;
        let mut samples: Vec<Value> = Vec::new();
        let mut rules = Vec::new();
        let mut parts_json = Vec::new();
        let mut all_exhaustive = !self.parts.is_empty();
        for p in &self.parts {
            evals += p.stats.evals;
            nontrivial += p.stats.nontrivial.len() as u64;
            rules.push(format!("[{}] {}", p.name, p.rule));
            all_exhaustive &= p.exhaustive;
            for s in p.stats.samples.iter().take(4) {
                samples.push(json!({ "check": p.name, "case": s }));
            }
            parts_json.push(json!({
                "check": p.name,
                "evaluations": p.stats.evals,
                "distinct_nontrivial": p.stats.nontrivial.len(),
                "exhaustive": p.exhaustive,
                "classes": p.stats.classes,
                "wall_s": (p.wall_s * 1000.0).round() / 1000.0,
            }));
        }
        let violations = if self.failure.is_some() { 1 } else { 0 };
        // several binaries may contribute to one property: later ones merge into the file
        let dir = PathBuf::from(VERIF_DIR).join("evidence");
        let path = dir.join(format!("{}.json", self.prop));
        let mut prior: Option<Value> = None;
        if std::env::var("VERIF_EVIDENCE_APPEND").ok().as_deref() == Some("1") {
            if let Ok(text) = std::fs::read_to_string(&path) {
                if let Ok(v) = serde_json::from_str::<Value>(&text) {
                    if v["tier"] == self.tier.name() && v["seed"] == json!(self.seed) {
                        prior = Some(v);
                    }
                }
            }
        }
        let mut prior_wall = 0.0;
        let mut prior_violations = 0;
        if let Some(p) = &prior {
            evals += p["coverage"]["evaluations"].as_u64().unwrap_or(0);
            nontrivial += p["coverage"]["distinct_nontrivial"].as_u64().unwrap_or(0);
            if let Some(r) = p["coverage"]["rule"].as_str() {
                rules.insert(0, r.to_string());
            }
            if let Some(a) = p["coverage"]["samples"].as_array() {
                let mut merged = a.clone();
                merged.extend(samples.drain(..));
                merged.truncate(40);
                samples = merged;
            }
            if let Some(a) = p["coverage"]["parts"].as_array() {
                let mut merged = a.clone();
                merged.extend(parts_json.drain(..));
                parts_json = merged;
            }
            all_exhaustive &= p["coverage"]["exhaustive"].as_bool().unwrap_or(false);
            prior_wall = p["wall_s"].as_f64().unwrap_or(0.0);
            prior_violations = p["violations"].as_i64().unwrap_or(0);
            if let Some(a) = p["assumptions"].as_array() {
                let mut merged: Vec<String> = a.iter().filter_map(|x| x.as_str().map(|s| s.to_string())).collect();
                for x in &self.assumptions {
                    if !merged.contains(x) {
                        merged.push(x.clone());
                    }
                }
                self.assumptions = merged;
            }
        }
        let violations = violations + prior_violations;
        let mut coverage = json!({
            "evaluations": evals,
            "distinct_nontrivial": nontrivial,
            "rule": rules.join(" || "),
            "samples": samples,
            "exhaustive": all_exhaustive,
            "parts": parts_json,
        });
        if let Some(p) = &prior {
            if let Some(obj) = p["coverage"].as_object() {
                for (k, v) in obj {
                    if coverage.get(k).is_none() {
                        coverage[k] = v.clone();
                    }
                }
            }
        }
        for (k, v) in &self.extra {
            coverage[k] = v.clone();
        }
        let evidence = json!({
            "property_id": self.prop,
            "tier": self.tier.name(),
            "seed": self.seed,
            "level": "exploration",
            "coverage": coverage,
            "assumptions": self.assumptions,
            "wall_s": ((self.started.elapsed().as_secs_f64() + prior_wall) * 1000.0).round() / 1000.0,
            "violations": violations,
        });
        let _ = std::fs::create_dir_all(&dir);
        let tmp = dir.join(format!(".{}.json.tmp{}", self.prop, std::process::id()));
        std::fs::write(&tmp, serde_json::to_string_pretty(&evidence).unwrap() + "\n").unwrap();
        std::fs::rename(&tmp, &path).unwrap();

        match self.failure {
            None => {
                println!(
                    "{} {}: held on {} cases ({} distinct non-trivial), seed {}",
                    self.prop,
                    self.tier.name(),
                    evals,
                    nontrivial,
                    self.seed
                );
                std::process::exit(0);
            }
            Some((check, failure, existing)) => {
                let path = existing.unwrap_or_else(|| {
                    let body = json!({
                        "property": self.prop, "check": check, "seed": self.seed,
                        "tier": self.tier.name(), "message": failure.message, "case": failure.case,
                    });
                    write_replay(&self.prop, &check, &body)
                });
                let shown: String = failure.message.chars().take(1800).collect();
                println!("{} {}: {}", self.prop, check, shown);
                println!("VIOLATION property={} replay={}", self.prop, path.display());
                std::process::exit(1);
            }
        }
    }
}

pub fn write_replay(prop: &str, check: &str, body: &Value) -> PathBuf {
    let dir = PathBuf::from(VERIF_DIR).join("replays").join(prop);
    let _ = std::fs::create_dir_all(&dir);
    let text = serde_json::to_string_pretty(body).unwrap() + "\n";
    let name = format!("{}-{:016x}.json", check.replace('/', "_"), hash_of(&text));
    let path = dir.join(name);
    let _ = std::fs::write(&path, text);
    path
}

/// `known: property=<id> signature=<sig> <text>` lines of /verif/known_findings.txt for this
/// property. (`fixed:` lines suppress nothing and are ignored here.)
fn read_known_findings(prop: &str) -> Vec<(String, String)> {
    let path = PathBuf::from(VERIF_DIR).join("known_findings.txt");
    let Ok(text) = std::fs::read_to_string(path) else { return Vec::new() };
    let mut out = Vec::new();
    for line in text.lines() {
        let line = line.trim();
        if let Some(rest) = line.strip_prefix("known:") {
            let rest = rest.trim();
            if let Some(r2) = rest.strip_prefix(&format!("property={} ", prop)) {
                let mut it = r2.splitn(2, ' ');
                let sig = it.next().unwrap_or("").to_string();
                let text = it.next().unwrap_or("").to_string();
                out.push((sig, text));
            }
        }
    }
    out
}

/// Convenience for tape checks: replay closure body.
pub fn replay_tape(
    case: &Value, f: impl Fn(&[u32], &mut Stats) -> Result<(), String>,
) -> Result<(), String> {
    let tape = tape_from_json(case.get("tape").unwrap_or(&Value::Null));
    let mut st = Stats::default();
    f(&tape, &mut st)
}

/// Test helper used by ValueTree-free code paths.
pub fn _unused<S: Strategy>(s: S, r: &mut TestRunner) -> Option<S::Value> {
    s.new_tree(r).ok().map(|t| t.current())
}

//! Literal generators for C03: values at and just beyond type bounds in every radix, all decimal
//! spellings, float literals at rounding boundaries, booleans, mismatched kinds.

use crate::ast::Lit;
use crate::bignum::exact_decimal;
use crate::lits::{gen_block, gen_decimal_text, gen_string, int_dec_lit, nondec_lit, LitCfg};
use crate::spec::Ty;
use crate::tape::Tape;

fn pow2ish(t: &mut Tape) -> i128 {
    let k = t.below(72) as u32;
    let base = 1i128 << k;
    base + [-1i128, 0, 1][t.below(3)]
}

/// An integer-valued literal for an integer parameter: in range, at the bounds, just outside, far
/// outside; in decimal or (non-negative) in a non-decimal radix.
pub fn gen_int_lit(t: &mut Tape, ty: Ty) -> (Lit, &'static str) {
    let (lo, hi) = ty.int_bounds();
    let (v, class): (i128, &'static str) = match t.weighted(&[3, 3, 3, 2, 2, 2, 2]) {
        0 => {
            let span = (hi - lo) as u128 + 1;
            (lo + ((t.u64() as u128 * span) >> 64) as i128, "int: uniform in range")
        }
        1 => (hi - 1 + t.below(3) as i128, "int: at the upper bound +-1"),
        2 => (lo - 1 + t.below(3) as i128, "int: at the lower bound +-1"),
        3 => ([0i128, 1, -1, 2, -2][t.below(5)], "int: small"),
        4 => {
            let p = pow2ish(t);
            (if t.chance(1, 3) { -p } else { p }, "int: power of two +-1")
        }
        5 => {
            // out of range, up to 2^70
            let extra = ((t.u64() as u128) << 6 | t.below(64) as u128) as i128;
            if t.chance(1, 2) {
                (hi + 1 + extra, "int: beyond the upper bound")
            }
            else {
                (lo - 1 - extra, "int: beyond the lower bound")
            }
        }
        _ => {
            // wrap candidates: value + 2^bits, which a wrapping conversion would accept
            let bits = match ty {
                Ty::U8 | Ty::I8 => 8,
                Ty::U16 | Ty::I16 => 16,
                Ty::U32 | Ty::I32 => 32,
                _ => 64,
            };
            let span = (hi - lo) as u128 + 1;
            let inr = lo + ((t.u64() as u128 * span) >> 64) as i128;
            (inr + (1i128 << bits) * [1i128, -1, 2][t.below(3)], "int: in range modulo 2^bits")
        }
    };
    if v >= 0 && t.chance(2, 5) {
        let radix = [16u32, 8, 2][t.below(3)];
        return (nondec_lit(t, v as u128, radix), class);
    }
    if v == 0 && t.chance(1, 4) {
        return (Lit::Dec(["-0", "+0", "00", "-00"][t.below(4)].to_string()), "int: spelled zero");
    }
    (int_dec_lit(t, v), class)
}

/// Moves the decimal point of `plain` (digits with optional point, no sign/exponent) by a random
/// number of places and compensates with an exponent.
fn respell(t: &mut Tape, plain: &str) -> String {
    let (int, frac) = match plain.split_once('.') {
        Some((i, f)) => (i.to_string(), f.to_string()),
        None => (plain.to_string(), String::new()),
    };
    match t.weighted(&[3, 2, 2]) {
        0 => plain.to_string(),
        1 => {
            // shift the point left by k: more fraction digits, positive exponent
            let k = t.range(1, int.len().max(1));
            let k = k.min(int.len());
            let (a, b) = int.split_at(int.len() - k);
            let a = if a.is_empty() { "0" } else { a };
            format!("{}.{}{}{}{}", a, b, frac, ["E", "e", "E+", "e+"][t.below(4)], k)
        }
        _ => {
            // shift the point right by k: negative exponent
            let k = t.range(1, 30);
            let mut f = frac.clone();
            while f.len() < k {
                f.push('0');
            }
            let (a, b) = f.split_at(k);
            let mut s = format!("{}{}", int, a);
            if !b.is_empty() {
                s.push('.');
                s.push_str(b);
            }
            format!("{}{}{}", s, ["E-", "e-"][t.below(2)], k)
        }
    }
}

/// Decimal literal at a rounding boundary of the float type with `mant_bits` explicit mantissa bits.
fn boundary_literal(t: &mut Tape, mant_bits: u32, bias: i64, max_field: i64) -> (String, &'static str) {
    let kind = t.weighted(&[6, 1, 1, 1]);
    let (m2, e2, class): (u128, i64, &'static str) = match kind {
        0 => {
            // midpoint between a random finite value and its successor
            let frac = (t.u64() as u128) & ((1u128 << mant_bits) - 1);
            let field = match t.weighted(&[5, 1, 1]) {
                0 => bias - 60 + t.below(120) as i64,
                1 => t.below(3) as i64, // subnormals / smallest normals
                _ => max_field - 1 - t.below(2) as i64,
            };
            let (m, e) = if field == 0 { (frac, 1 - bias - mant_bits as i64) } else { (frac | (1u128 << mant_bits), field - bias - mant_bits as i64) };
            (2 * m + 1, e - 1, "float: midpoint between neighbours")
        }
        1 => ((1u128 << (mant_bits + 2)) - 1, (max_field - 1 - bias) - mant_bits as i64 - 1, "float: overflow threshold"),
        2 => (1, 1 - bias - mant_bits as i64 - 1, "float: half the smallest subnormal"),
        _ => {
            // an exactly representable value
            let frac = (t.u64() as u128) & ((1u128 << mant_bits) - 1);
            let field = bias - 30 + t.below(60) as i64;
            (frac | (1u128 << mant_bits), field - bias - mant_bits as i64, "float: exactly representable")
        }
    };
    let exact = exact_decimal(m2, e2);
    // perturb far beyond the precision of any float: just below, exactly, just above
    let text = match t.below(3) {
        0 => exact.clone(),
        1 => {
            if exact.contains('.') {
                format!("{}{}1", exact, "0".repeat(t.below(12)))
            }
            else {
                format!("{}.{}1", exact, "0".repeat(t.below(12)))
            }
        }
        _ => {
            // decrement the last digit and append 9s
            let mut bytes = exact.clone().into_bytes();
            let mut i = bytes.len();
            let mut done = false;
            while i > 0 {
                i -= 1;
                if bytes[i] == b'.' {
                    continue;
                }
                if bytes[i] > b'0' {
                    bytes[i] -= 1;
                    done = true;
                    break;
                }
                bytes[i] = b'9';
            }
            let mut s = String::from_utf8(bytes).unwrap();
            if !done {
                s = exact.clone();
            }
            if !s.contains('.') {
                s.push('.');
            }
            s.push_str(&"9".repeat(t.range(1, 12)));
            s
        }
    };
    let mut out = String::new();
    match t.weighted(&[3, 2, 1]) {
        1 => out.push('-'),
        2 => out.push('+'),
        _ => {}
    }
    out.push_str(&respell(t, &text));
    (out, class)
}

pub fn gen_float_lit(t: &mut Tape, ty: Ty) -> (Lit, &'static str) {
    match t.weighted(&[4, 5, 1]) {
        0 => (Lit::Dec(gen_decimal_text(t, 25, 25, 330)), "float: random decimal spelling"),
        1 => {
            let (s, class) = if ty == Ty::F32 { boundary_literal(t, 23, 127, 255) } else { boundary_literal(t, 52, 1023, 2047) };
            (Lit::Dec(s), class)
        }
        _ => {
            let s = ["0", "-0", "0.0", ".0", "0.", "1", "1.", ".5", "1e0", "1E+0", "1e-0", "00012.50", "+.5e+1", "1e38", "3.5e38", "1e39", "1e308", "1.8e308", "1e309", "1e-45", "1e-46", "5e-324", "2e-324", "1e-400", "1e400"]
                [t.below(25)];
            (Lit::Dec(s.to_string()), "float: special spelling")
        }
    }
}

pub fn gen_bool_lit(t: &mut Tape) -> (Lit, &'static str) {
    match t.weighted(&[5, 2, 2, 2]) {
        0 => (Lit::from_bool_spelling(t.below(6)), "bool: ON/OFF/1/0"),
        1 => (
            Lit::Chars(["TRUE", "FALSE", "true", "false", "On", "oFF", "True", "oN", "Off"][t.below(9)].to_string()),
            "bool: other accepted-looking word",
        ),
        2 => (
            Lit::Chars(["YES", "NO", "O", "ONN", "OF", "ENABLE", "T", "F", "ON1", "MAX"][t.below(10)].to_string()),
            "bool: other word",
        ),
        _ => (
            Lit::Dec(["2", "-1", "10", "01", "00", "1.0", "0.0", "+1", "1e0", "0.5", "-0", "11", "255", "1.5"][t.below(14)].to_string()),
            "bool: other number",
        ),
    }
}

/// A literal of another kind than the parameter type wants.
pub fn gen_mismatch(t: &mut Tape, ty: Ty) -> (Lit, &'static str) {
    let cfg = LitCfg {
        newlines: false,
        specials: true,
        max_payload: 6,
    };
    let mut options: Vec<Lit> = vec![
        Lit::Dec("1".into()),
        Lit::Dec("-2.5e1".into()),
        Lit::Chars("ABC".into()),
        Lit::Chars("on".into()),
        nondec_lit(t, 10, 16),
        nondec_lit(t, 5, 2),
        gen_string(t, &cfg),
        gen_block(t, &cfg),
        Lit::Str { quote: b'"', body: b"1".to_vec() },
        Lit::Block { ndig: 1, body: b"1".to_vec() },
    ];
    options.retain(|l| match (ty, l) {
        (Ty::Str, Lit::Str { .. }) => false,
        (Ty::Bytes, Lit::Block { .. }) => false,
        (Ty::Bool, Lit::Dec(_) | Lit::Chars(_)) => false,
        (Ty::F32 | Ty::F64, Lit::Dec(_)) => false,
        (i, Lit::Dec(_) | Lit::NonDec { .. }) if i.is_int() => false,
        _ => true,
    });
    let k = t.below(options.len());
    (options.swap_remove(k), "mismatched kind")
}

/// A literal for a parameter of type `ty`, drawn from the class mix of C03.
pub fn gen_c03_lit(t: &mut Tape, ty: Ty) -> (Lit, &'static str) {
    gen_c03_lit_nl(t, ty, false)
}

/// `newlines`: string and block payloads may contain the byte 0x0A (legal inside both containers;
/// only sound where no parser-level fault can precede the payload, see `c03_sig_prop`).
pub fn gen_c03_lit_nl(t: &mut Tape, ty: Ty, newlines: bool) -> (Lit, &'static str) {
    let cfg = LitCfg {
        newlines,
        specials: true,
        max_payload: 16,
    };
    if t.chance(1, 6) {
        return gen_mismatch(t, ty);
    }
    if ty.is_int() {
        if t.chance(1, 8) {
            // a real-number spelling given to an integer
            let s = ["1.0", "1e1", "2.5", "1.", "1e0", "-1.0", "100e-2", "0.5", "1e30", "12e-1"][t.below(10)];
            return (Lit::Dec(s.to_string()), "int: real-number spelling");
        }
        return gen_int_lit(t, ty);
    }
    match ty {
        Ty::F32 | Ty::F64 => {
            if t.chance(1, 10) {
                let v = t.below(100_000) as u128;
                let radix = [16u32, 8, 2][t.below(3)];
                return (nondec_lit(t, v, radix), "float: non-decimal literal");
            }
            gen_float_lit(t, ty)
        }
        Ty::Bool => gen_bool_lit(t),
        Ty::Str => {
            let l = gen_string(t, &cfg);
            let nl = matches!(&l, Lit::Str { body, .. } if body.contains(&b'\n'));
            (l, if nl { "string with a newline" } else { "string" })
        }
        Ty::Bytes => {
            let l = gen_block(t, &cfg);
            let nl = matches!(&l, Lit::Block { body, .. } if body.contains(&b'\n'));
            (l, if nl { "block with a newline" } else { "block" })
        }
        _ => unreachable!(),
    }
}

//! C13 (dynamic half) - parsing, dispatch and response formatting never allocate on the heap.
//!
//! microscpi is built with default features (no `std`). A counting global allocator counts the
//! allocations of the current thread between entry to and exit from `run` / `process`.

use std::alloc::{GlobalAlloc, Layout, System};
use std::cell::Cell;
use std::future::Future;
use std::task::{Context, Poll, RawWaker, RawWakerVTable, Waker};

use microscpi::{Adapter, ErrorQueue, Interface};
use serde_json::json;
use vcore::gen::Index;
use vcore::runner::{esc, replay_tape, Harness, Stats};
use vcore::spec::Model;
use vcore::streams::gen_stream_case;
use vcore::tape::Tape;

include!(concat!(env!("OUT_DIR"), "/generated.rs"));

thread_local! {
    static WINDOW: Cell<bool> = const { Cell::new(false) };
    static ALLOCS: Cell<u64> = const { Cell::new(0) };
}

struct Counting;

unsafe impl GlobalAlloc for Counting {
    unsafe fn alloc(&self, layout: Layout) -> *mut u8 {
        note();
        System.alloc(layout)
    }
    unsafe fn dealloc(&self, ptr: *mut u8, layout: Layout) {
        System.dealloc(ptr, layout)
    }
    unsafe fn alloc_zeroed(&self, layout: Layout) -> *mut u8 {
        note();
        System.alloc_zeroed(layout)
    }
    unsafe fn realloc(&self, ptr: *mut u8, layout: Layout, new_size: usize) -> *mut u8 {
        note();
        System.realloc(ptr, layout, new_size)
    }
}

fn note() {
    let _ = WINDOW.try_with(|w| {
        if w.get() {
            let _ = ALLOCS.try_with(|a| a.set(a.get() + 1));
        }
    });
}

#[global_allocator]
static GLOBAL: Counting = Counting;

/// Runs `f` and returns the number of heap allocations this thread made meanwhile.
fn counted<T>(f: impl FnOnce() -> T) -> (T, u64) {
    ALLOCS.with(|a| a.set(0));
    WINDOW.with(|w| w.set(true));
    let r = f();
    WINDOW.with(|w| w.set(false));
    (r, ALLOCS.with(|a| a.get()))
}

fn noop_waker() -> Waker {
    fn clone(_: *const ()) -> RawWaker {
        RawWaker::new(std::ptr::null(), &VTABLE)
    }
    fn noop(_: *const ()) {}
    static VTABLE: RawWakerVTable = RawWakerVTable::new(clone, noop, noop, noop);
    unsafe { Waker::from_raw(RawWaker::new(std::ptr::null(), &VTABLE)) }
}

fn block_on<F: Future>(fut: F) -> F::Output {
    let mut fut = std::pin::pin!(fut);
    let waker = noop_waker();
    let mut cx = Context::from_waker(&waker);
    loop {
        if let Poll::Ready(v) = fut.as_mut().poll(&mut cx) {
            return v;
        }
    }
}

/// Transport over borrowed slices; written bytes are only counted.
struct SliceAdapter<'a> {
    stream: &'a [u8],
    pos: usize,
    reads: &'a [usize],
    ri: usize,
    written: usize,
    flushes: usize,
}

impl Adapter for SliceAdapter<'_> {
    type Error = ();
    async fn read(&mut self, dst: &mut [u8]) -> Result<usize, ()> {
        if self.pos >= self.stream.len() || dst.is_empty() {
            return Err(());
        }
        let want = if self.ri < self.reads.len() { self.reads[self.ri] } else { usize::MAX };
        self.ri += 1;
        let n = want.min(dst.len()).min(self.stream.len() - self.pos);
        dst[..n].copy_from_slice(&self.stream[self.pos..self.pos + n]);
        self.pos += n;
        Ok(n)
    }
    async fn write(&mut self, src: &[u8]) -> Result<(), ()> {
        self.written += src.len();
        Ok(())
    }
    async fn flush(&mut self) -> Result<(), ()> {
        self.flushes += 1;
        Ok(())
    }
}

struct Outcome {
    handlers: usize,
    with_params: usize,
    errors: usize,
    output: usize,
}

fn run_cap<const CAP: usize>(fail_mask: u64, input: &[u8]) -> (Outcome, u64) {
    let mut iface = na::I::<4>::new();
    iface.fail_mask = fail_mask;
    let mut w: heapless::Vec<u8, CAP> = heapless::Vec::new();
    let (_, allocs) = counted(|| {
        block_on(async {
            let rest = iface.run(input, &mut w).await;
            rest.len()
        })
    });
    (
        Outcome {
            handlers: iface.calls.len(),
            with_params: iface.calls.iter().filter(|c| c.1 != 0).count(),
            errors: iface.queue.error_count(),
            output: w.len(),
        },
        allocs,
    )
}

fn process_n<const N: usize>(fail_mask: u64, stream: &[u8], reads: &[usize]) -> (Outcome, u64) {
    let mut iface = na::I::<4>::new();
    iface.fail_mask = fail_mask;
    let mut adapter = SliceAdapter {
        stream,
        pos: 0,
        reads,
        ri: 0,
        written: 0,
        flushes: 0,
    };
    let (_, allocs) = counted(|| block_on(iface.process::<N, _>(&mut adapter)));
    (
        Outcome {
            handlers: iface.calls.len(),
            with_params: iface.calls.iter().filter(|c| c.1 != 0).count(),
            errors: iface.queue.error_count(),
            output: adapter.written,
        },
        allocs,
    )
}

const N_VALUES: &[usize] = &[1, 2, 8, 16, 32, 64, 256, 1024];
const CAP_VALUES: &[usize] = &[0, 1, 8, 64, 1024];

fn prop(model: &Model, ix: &Index, tape: &[u32], st: &mut Stats) -> Result<(), String> {
    let mut t = Tape::new(tape);
    let c = gen_stream_case(&mut t, model, ix, N_VALUES, CAP_VALUES);
    let fail_mask = if t.chance(1, 4) { 1u64 << t.below(model.spec.decls.len().min(64)) } else { 0 };
    let (o1, a1) = match c.cap {
        0 => run_cap::<0>(fail_mask, &c.stream),
        1 => run_cap::<1>(fail_mask, &c.stream),
        8 => run_cap::<8>(fail_mask, &c.stream),
        64 => run_cap::<64>(fail_mask, &c.stream),
        _ => run_cap::<1024>(fail_mask, &c.stream),
    };
    if a1 != 0 {
        return Err(format!("run('{}') into heapless::Vec<u8,{}> made {} heap allocations", esc(&c.stream), c.cap, a1));
    }
    let (o2, a2) = match c.n {
        1 => process_n::<1>(fail_mask, &c.stream, &c.reads),
        2 => process_n::<2>(fail_mask, &c.stream, &c.reads),
        8 => process_n::<8>(fail_mask, &c.stream, &c.reads),
        16 => process_n::<16>(fail_mask, &c.stream, &c.reads),
        32 => process_n::<32>(fail_mask, &c.stream, &c.reads),
        64 => process_n::<64>(fail_mask, &c.stream, &c.reads),
        256 => process_n::<256>(fail_mask, &c.stream, &c.reads),
        _ => process_n::<1024>(fail_mask, &c.stream, &c.reads),
    };
    if a2 != 0 {
        return Err(format!("process::<{}>('{}') made {} heap allocations", c.n, esc(&c.stream), a2));
    }
    for (o, mode) in [(&o1, "run"), (&o2, "process")] {
        if o.with_params > 0 {
            st.class(&format!("{}: handler with parameters", mode));
        }
        if o.output > 0 {
            st.class(&format!("{}: response written", mode));
        }
        if o.errors > 0 {
            st.class(&format!("{}: error reported", mode));
        }
    }
    if o1.with_params + o1.output + o1.errors + o2.with_params + o2.output + o2.errors > 0 {
        st.nontrivial(&(&c.stream, c.n, c.cap, fail_mask));
    }
    let _ = (o1.handlers, o2.handlers);
    st.sample(|| json!({ "stream": esc(&c.stream), "N": c.n, "cap": c.cap }));
    Ok(())
}

fn main() {
    let mut h = Harness::from_args("C13");
    // the allocation window is per thread; the search itself may use all workers
    let spec = vcore::codegen::spec_from_json(&serde_json::from_str(na::SPEC_JSON).unwrap());
    let model = Model::build(&spec).expect("na fixture is collision-free");
    let ix = Index::new(&model, false);
    h.assume("microscpi is compiled with default features (no std) in this binary; allocations are counted per thread between entry to and exit from run/process by a counting #[global_allocator]");
    h.assume("the fixture's handlers and transport do not allocate themselves (fixed-capacity records, borrowed slices); String responses are excluded because they allocate by definition");
    // self-test of the counter: a Vec allocation inside the window must be seen
    let (_, seen) = counted(|| std::hint::black_box(vec![1u8; 32]).len());
    if seen == 0 {
        eprintln!("harness: the counting allocator does not see allocations");
        std::process::exit(2);
    }
    let cases = h.tier.pick(600_000, 40_000_000);
    h.check(
        "c13.noalloc",
        "proptest tapes -> streams of 1-6 segments over the no-alloc fixture (valid messages incl. payload newlines, byte-mutated messages, garbage tokens, random bytes; every parameter type, responses of integers, floats incl. NaN/inf, strings, blocks, character data, tuples, heapless vectors, slices, errors; failing handlers) x response capacity in {0,1,8,64,1024} through run and x N in {1,2,8,16,32,64,256,1024} x random read schedule through process: the counting allocator must see 0 allocations inside run/process; non-trivial = a handler ran with parameters, a response was written or an error was reported",
        false,
        |h, st| h.tape_search("c13.noalloc", cases, 200, st, |tape, st| prop(&model, &ix, tape, st)),
        |case| replay_tape(case, |tape, st| prop(&model, &ix, tape, st)),
    );
    // outcome of the static half (written by ./check before this binary runs)
    if let Ok(text) = std::fs::read_to_string("/verif/target/nostd_probe.status") {
        h.extra("nostd_probe", json!(text.trim()));
    }
    h.finish();
}

//! Generates K interfaces from VERIF_GEN_SEED (or from the specs in VERIF_GEN_SPEC_FILE) and
//! compiles them through the real #[microscpi::interface] macro.

use std::fmt::Write;

use vcore::spec::Spec;
use vcore::tape::Tape;

fn splitmix(seed: u64, stream: u64, n: usize) -> Vec<u32> {
    let mut x = seed.wrapping_mul(0x9e37_79b9_7f4a_7c15) ^ stream.wrapping_mul(0xbf58_476d_1ce4_e5b9) ^ 0x1234_5678_9abc_def0;
    (0..n)
        .map(|_| {
            x = x.wrapping_add(0x9e37_79b9_7f4a_7c15);
            let mut z = x;
            z = (z ^ (z >> 30)).wrapping_mul(0xbf58_476d_1ce4_e5b9);
            z = (z ^ (z >> 27)).wrapping_mul(0x94d0_49bb_1331_11eb);
            ((z ^ (z >> 31)) >> 32) as u32
        })
        .collect()
}

fn main() {
    println!("cargo:rerun-if-env-changed=VERIF_GEN_SEED");
    println!("cargo:rerun-if-env-changed=VERIF_GEN_K");
    println!("cargo:rerun-if-env-changed=VERIF_GEN_SPEC_FILE");
    println!("cargo:rerun-if-changed=build.rs");
    let out = std::env::var("OUT_DIR").unwrap();
    let seed: u64 = std::env::var("VERIF_GEN_SEED").ok().and_then(|s| s.parse().ok()).unwrap_or(0);
    let k: usize = std::env::var("VERIF_GEN_K").ok().and_then(|s| s.parse().ok()).unwrap_or(8);
    let k2: usize = std::env::var("VERIF_GEN_K2").ok().and_then(|s| s.parse().ok()).unwrap_or(4);
    println!("cargo:rerun-if-env-changed=VERIF_GEN_K2");
    let mut replay_spec: Option<Spec> = None;
    if let Ok(path) = std::env::var("VERIF_GEN_SPEC_FILE") {
        if !path.is_empty() {
            println!("cargo:rerun-if-changed={}", path);
            let v: serde_json::Value = serde_json::from_str(&std::fs::read_to_string(&path).expect("spec file")).expect("spec json");
            let spec_json = v.pointer("/case/spec").cloned().unwrap_or(v);
            let mut s = vcore::codegen::spec_from_json(&spec_json);
            s.name = "g0".into();
            replay_spec = Some(s);
        }
    }
    for mode in ["valid", "twins"] {
        let mut specs: Vec<Spec> = Vec::new();
        let mut meta: Vec<serde_json::Value> = Vec::new();
        if let Some(s) = &replay_spec {
            specs.push(s.clone());
            meta.push(serde_json::json!({ "from": "replay" }));
        }
        let want = if mode == "valid" { k } else { k2 };
        let mut i = 0u64;
        while replay_spec.is_none() && specs.len() < want {
            let tape = splitmix(seed ^ if mode == "twins" { 0x7715 } else { 0 }, i, 4000);
            i += 1;
            let mut t = Tape::new(&tape);
            let name = format!("g{}", specs.len());
            if mode == "twins" {
                if let Some(a) = vcore::treegen::gen_ambiguous_kind(&mut t, &name, Some(specs.len())) {
                    meta.push(serde_json::json!({ "kind": a.kind, "needs_expansion": a.needs_expansion,
                        "ambiguous": vcore::codegen::spec_to_json(&a.ambiguous) }));
                    specs.push(a.twin);
                }
            }
            else {
                let (s, info) = vcore::treegen::gen_spec(&mut t, &name);
                meta.push(serde_json::json!({ "skipped": info.skipped }));
                specs.push(s);
            }
        }
        if mode == "valid" && replay_spec.is_none() {
            // one very large set (more than 256 handlers)
            let name = format!("g{}", specs.len());
            specs.push(vcore::treegen::big_spec(&name));
            meta.push(serde_json::json!({ "skipped": 0, "big": true }));
        }
        let mut src = String::new();
        for s in &specs {
            vcore::spec::Model::build(s).expect("generated spec must be collision-free");
            src.push_str(&vcore::codegen::emit_module(s));
        }
        writeln!(src, "pub static ENTRIES: &[Entry] = &[").unwrap();
        for s in &specs {
            let ty = if s.errors { format!("{}::I<4>", s.name) } else { format!("{}::I", s.name) };
            writeln!(src, "    Entry {{ root: root_of::<{}>, spec_json: {}::SPEC_JSON, run_rec: rr::<{}>, process: pp::<{}> }},", ty, s.name, ty, ty).unwrap();
        }
        writeln!(src, "];").unwrap();
        writeln!(src, "pub const META_JSON: &str = r####\"{}\"####;", serde_json::to_string(&meta).unwrap()).unwrap();
        std::fs::write(format!("{}/generated_{}.rs", out, mode), src).unwrap();
    }
}

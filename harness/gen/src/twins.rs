//! Collision-free twins of ambiguous declaration sets (C14).
include!(concat!(env!("OUT_DIR"), "/generated_twins.rs"));
include!("driver.rs");

// Driver for generated interfaces (included by main.rs and twins.rs).
// the twin half of C14.

use serde_json::{json, Value};
use vcore::gen::{Env, Index};
use vcore::runner::{esc, replay_tape, tape_from_json, Failure, Harness, Stats};
use vcore::spec::{Header, Model};
use vrun::props::{c01_candidates, c01_check_header, c01_random_prop, c02_prop, c03_sig_prop, c06_prop, c11_random_prop, c12_unit_prop, Exec};
use vrun::{Fixture, ProcOut, RunOut};

pub struct Entry {
    pub root: fn() -> &'static microscpi::Node,
    pub spec_json: &'static str,
    pub run_rec: fn(&Env, &[u8], &[u8]) -> RunOut,
    pub process: fn(&Env, usize, &[u8], &[u8], &[usize]) -> ProcOut,
}

pub fn rr<I: Fixture>(env: &Env, pauses: &[u8], input: &[u8]) -> RunOut {
    vrun::run_rec::<I>(Some(env), pauses, input)
}

pub fn root_of<I: Fixture>() -> &'static microscpi::Node {
    use microscpi::Interface;
    I::new_fixture().root_node()
}

pub fn pp<I: Fixture>(env: &Env, _n: usize, pauses: &[u8], stream: &[u8], reads: &[usize]) -> ProcOut {
    vrun::process::<I, 1024>(Some(env), pauses, stream, reads, None)
}


const SIZES: &[usize] = &[1024];

struct Iface {
    model: Model,
    spec_json: Value,
}

fn exec_of(e: &'static Entry) -> Exec<'static> {
    Exec {
        run_rec: &e.run_rec,
        process: &e.process,
        sizes: SIZES,
        qcap: 4,
    }
}

fn header_json(h: &Header) -> Value {
    json!({ "absolute": h.absolute, "mnems": h.mnems, "query": h.query })
}

fn header_from(v: &Value) -> Header {
    Header {
        absolute: v["absolute"].as_bool().unwrap_or(false),
        mnems: v["mnems"].as_array().map(|a| a.iter().map(|x| x.as_str().unwrap_or("").to_string()).collect()).unwrap_or_default(),
        query: v["query"].as_bool().unwrap_or(false),
    }
}

fn main() {
    let args: Vec<String> = std::env::args().collect();
    let prop = args
        .iter()
        .position(|a| a == "--prop")
        .and_then(|i| args.get(i + 1).cloned())
        .unwrap_or_else(|| "C01".to_string());
    let mut h = Harness::from_args(&prop);
    let ifaces: Vec<Iface> = ENTRIES
        .iter()
        .map(|e| {
            let spec = vrun::spec_of(e.spec_json);
            Iface {
                model: Model::build(&spec).expect("generated spec is collision-free"),
                spec_json: serde_json::from_str(e.spec_json).unwrap(),
            }
        })
        .collect();
    let meta: Vec<Value> = serde_json::from_str(META_JSON).unwrap_or_default();
    let k = ifaces.len();
    let decls: usize = ifaces.iter().map(|i| i.model.spec.decls.len()).sum();
    h.extra("generated_interfaces", json!(k));
    h.extra("generated_declarations", json!(decls));
    h.extra(
        "sample_declaration_sets",
        json!(ifaces.iter().take(3).map(|i| i.model.spec.decls.iter().map(|d| d.cmd.clone()).collect::<Vec<_>>()).collect::<Vec<_>>()),
    );
    h.assume("declaration sets are generated from VERIF_SEED by the harness's tree generator (3-8 mnemonic spellings incl. non-prefix short forms, digits, underscores, all-upper; depth 1-4; optional nodes anywhere but never all; command/query/both; common commands; 0-10 parameters; sync/async; all four attribute combinations) and kept collision-free by the reference dictionary; all-optional paths are excluded");

    match prop.as_str() {
        "C01" | "C14" => {
            let name = if prop == "C01" { "c01.systematic" } else { "c14.twins" };
            let cands: Vec<Vec<(Header, &'static str)>> = ifaces.iter().map(|i| c01_candidates(&i.model)).collect();
            let mut offsets: Vec<u64> = Vec::new();
            let mut total = 0u64;
            for c in &cands {
                offsets.push(total);
                total += c.len() as u64 * 3;
            }
            let rule = if prop == "C01" {
                format!("{} generated declaration sets ({} declarations) compiled through the real macro; for each set EVERY declared spelling (all long/short/omitted combinations of every declaration, incl. the standard commands when requested) and systematic near misses built from every node of every declaration (every abbreviation that is neither short nor long form, shorter than short, long/short plus a letter, another node's mnemonic, non-optional level dropped, level duplicated, levels swapped, extra trailing level, query mark toggled; the standard headers whether requested or not), each under 3 case spellings, run alone: exactly one invocation of the handler the reference dictionary names (and its response), or no invocation and exactly one -113; non-trivial = near miss or non-canonical spelling (distinct by set, header, case variant)", k, decls)
            }
            else {
                format!("{} collision-free twins of ambiguous declaration sets (the colliding pair minimally de-collided) compiled through the real macro; every declared spelling of every declaration must reach exactly its own handler (nothing shadowed), near misses must be undefined; together with the compile-fail half recorded under 'ambiguous_half'", k)
            };
            h.check(
                name,
                &rule,
                true,
                |h, st| {
                    h.enum_search(name, total, st, |idx, st| {
                        let ii = offsets.partition_point(|o| *o <= idx) - 1;
                        let local = idx - offsets[ii];
                        let (header, class) = &cands[ii][(local / 3) as usize];
                        let salt = local % 3 + 3 * (idx % 5);
                        let ex = exec_of(&ENTRIES[ii]);
                        c01_check_header(&ifaces[ii].model, &ex, header, salt, st, class).map_err(|e| {
                            (
                                format!("interface {}: {}", ifaces[ii].model.spec.name, e),
                                json!({ "spec": ifaces[ii].spec_json, "header": header_json(header), "salt": salt, "class": class }),
                            )
                        })?;
                        if *class != "declared spelling" || salt % 3 != 0 {
                            st.nontrivial(&(ii, header, salt));
                        }
                        if idx % 9973 == 0 {
                            st.sample(|| json!({ "declarations": ifaces[ii].model.spec.decls.iter().map(|d| d.cmd.clone()).collect::<Vec<_>>(), "header": header.render(), "class": class }));
                        }
                        Ok(())
                    })
                },
                |case: &Value| {
                    // replay: the crate was rebuilt from the spec embedded in the replay file
                    let ex = exec_of(&ENTRIES[0]);
                    c01_check_header(
                        &ifaces[0].model,
                        &ex,
                        &header_from(&case["header"]),
                        case["salt"].as_u64().unwrap_or(0),
                        &mut Stats::default(),
                        case["class"].as_str().unwrap_or("replay"),
                    )
                },
            );
            if prop == "C01" {
                let cases = h.tier.pick(150_000u64, 600_000);
                let per = (cases / k as u64).max(1);
                h.check(
                    "c01.random",
                    "proptest tapes per generated set: a declaration, per node long/short/omitted, 0-2 random mutations (truncate, append letter, other mnemonic, drop, duplicate, swap, extra level, toggle '?'), random case: judged by the dictionary as above; non-trivial = mutated or non-canonical spelling",
                    false,
                    |h, st| {
                        for (ii, iface) in ifaces.iter().enumerate() {
                            let ex = exec_of(&ENTRIES[ii]);
                            if let Some(mut f) = h.tape_search("c01.random", per, 40, st, |tape, st| c01_random_prop(&iface.model, &ex, tape, st)) {
                                f.case["spec"] = iface.spec_json.clone();
                                f.message = format!("interface {}: {}", iface.model.spec.name, f.message);
                                return Some(f);
                            }
                        }
                        None
                    },
                    |case| {
                        let ex = exec_of(&ENTRIES[0]);
                        replay_tape(case, |tape, st| c01_random_prop(&ifaces[0].model, &ex, tape, st))
                    },
                );
            }
            else {
                // results of the compile-fail half, written by ./check
                if let Ok(text) = std::fs::read_to_string("/verif/target/c14_ambiguous.json") {
                    if let Ok(v) = serde_json::from_str::<Value>(&text) {
                        let mut stx = Stats::default();
                        stx.evals = v["interfaces"].as_u64().unwrap_or(0);
                        if let Some(a) = v["sets"].as_array() {
                            for s in a {
                                stx.class(&format!("rejected: {}", s["kind"].as_str().unwrap_or("?")));
                                if s["needs_expansion"].as_bool().unwrap_or(false) {
                                    stx.nontrivial(&s["pair"].to_string());
                                }
                            }
                            for s in a.iter().take(4) {
                                let s = s.clone();
                                stx.sample(|| s);
                            }
                        }
                        h.external_part(
                            "c14.ambiguous",
                            "generated declaration sets = a random collision-free set plus ONE colliding pair of a drawn kind (identical spelling; short form written out; long form in upper case; optional first/last/middle node; two optionals meeting; a requested standard command redeclared; query variants), all placed in one crate that is compiled with cargo check: the compiler must report the macro's rejection inside the module of EVERY such set and nothing else; the reference dictionary decides which sets are ambiguous; non-trivial = the collision is only visible after expanding short/long forms or optional nodes",
                            false,
                            stx,
                        );
                        h.extra("ambiguous_half", v);
                    }
                }
                let kinds: Vec<String> = meta.iter().filter_map(|m| m["kind"].as_str().map(|s| s.to_string())).collect();
                h.extra("twin_kinds", json!(kinds));
            }
        }
        "C02" | "C06" => {
            let name = if prop == "C02" { "c02.generated" } else { "c06.generated" };
            let cases = h.tier.pick(100_000u64, 1_000_000);
            let per = (cases / k as u64).max(1);
            let rule = format!(
                "the property of the fixture part, over {} generated declaration sets ({} declarations; mnemonics recur across levels and parents), {} proptest tapes per set, process::<1024>",
                k, decls, per
            );
            h.check(
                name,
                &rule,
                false,
                |h, st| {
                    for (ii, iface) in ifaces.iter().enumerate() {
                        let ex = exec_of(&ENTRIES[ii]);
                        let ix = Index::new(&iface.model, true);
                        let r = if prop == "C02" {
                            h.tape_search(name, per, 260, st, |tape, st| c02_prop(&iface.model, &ix, &ex, tape, st))
                        }
                        else {
                            h.tape_search(name, per, 300, st, |tape, st| c06_prop(&iface.model, &ix, &ex, tape, st))
                        };
                        if let Some(mut f) = r {
                            f.case["spec"] = iface.spec_json.clone();
                            f.message = format!("interface {} {:?}: {}", iface.model.spec.name, iface.model.spec.decls.iter().map(|d| d.cmd.clone()).collect::<Vec<_>>(), f.message);
                            return Some(f);
                        }
                    }
                    None
                },
                |case| {
                    let ex = exec_of(&ENTRIES[0]);
                    let ix = Index::new(&ifaces[0].model, true);
                    let tape = tape_from_json(&case["tape"]);
                    let mut st = Stats::default();
                    if prop == "C02" {
                        c02_prop(&ifaces[0].model, &ix, &ex, &tape, &mut st)
                    }
                    else {
                        c06_prop(&ifaces[0].model, &ix, &ex, &tape, &mut st)
                    }
                },
            );
        }
        "C03" => {
            let cases = h.tier.pick(120_000u64, 1_500_000);
            let per = (cases / k as u64).max(1);
            let with_params: usize = ifaces.iter().map(|i| i.model.spec.decls.iter().filter(|d| !d.params.is_empty()).count()).sum();
            h.check(
                "c03.generated",
                &format!("the c03.signatures property over {} generated declaration sets: {} declarations with 1-10 parameters of random types (all 15 parameter types, commands and queries, sync and async), {} proptest tapes per set", k, with_params, per),
                false,
                |h, st| {
                    for (ii, iface) in ifaces.iter().enumerate() {
                        let ex = exec_of(&ENTRIES[ii]);
                        let sigs: Vec<usize> = (0..iface.model.spec.decls.len()).collect();
                        if let Some(mut f) = h.tape_search("c03.generated", per, 160, st, |tape, st| c03_sig_prop(&iface.model, &ex, &sigs, tape, st)) {
                            f.case["spec"] = iface.spec_json.clone();
                            f.message = format!("interface {}: {}", iface.model.spec.name, f.message);
                            return Some(f);
                        }
                    }
                    None
                },
                |case| {
                    let ex = exec_of(&ENTRIES[0]);
                    let sigs: Vec<usize> = (0..ifaces[0].model.spec.decls.len()).collect();
                    let tape = tape_from_json(&case["tape"]);
                    c03_sig_prop(&ifaces[0].model, &ex, &sigs, &tape, &mut Stats::default())
                },
            );
        }
        "C11" => {
            let cases = h.tier.pick(90_000u64, 1_500_000);
            let per = (cases / k as u64).max(1);
            h.check(
                "c11.generated",
                &format!("the c11.random property (base message of 1-4 units incl. execution-type faults vs 3 lexical variants: per mnemonic the other declared form where the tree has one, random letter case, white space of all 32 byte values in the five slots, CR LF; identical observations through run and process::<1024>) over {} generated declaration sets ({} declarations: mnemonics declared only in short form next to the same node spelled in full, non-prefix short forms, digits, underscores, optional nodes, common commands), {} proptest tapes per set; non-trivial = variant differing in >= 2 kinds of variation or using a white-space byte other than blank/tab/CR", k, decls, per),
                false,
                |h, st| {
                    for (ii, iface) in ifaces.iter().enumerate() {
                        let ex = exec_of(&ENTRIES[ii]);
                        let ix = Index::new(&iface.model, true);
                        if let Some(mut f) = h.tape_search("c11.generated", per, 260, st, |tape, st| c11_random_prop(&iface.model, &ix, &ex, tape, st)) {
                            f.case["spec"] = iface.spec_json.clone();
                            f.message = format!("interface {} {:?}: {}", iface.model.spec.name, iface.model.spec.decls.iter().map(|d| d.cmd.clone()).collect::<Vec<_>>(), f.message);
                            return Some(f);
                        }
                    }
                    None
                },
                |case| {
                    let ex = exec_of(&ENTRIES[0]);
                    let ix = Index::new(&ifaces[0].model, true);
                    let tape = tape_from_json(&case["tape"]);
                    c11_random_prop(&ifaces[0].model, &ix, &ex, &tape, &mut Stats::default())
                },
            );
        }
        "C12" => {
            let cases = h.tier.pick(100_000u64, 1_500_000);
            let per = (cases / k as u64).max(1);
            h.check(
                "c12.generated",
                &format!("the c12.units relations (unit alone vs unit + tail, prefixes, never Incomplete for a complete unit) on the trees the macro generates for {} generated declaration sets, {} proptest tapes per set, from every reachable path context", k, per),
                false,
                |h, st| {
                    for (ii, iface) in ifaces.iter().enumerate() {
                        let ix = Index::new(&iface.model, true);
                        let root = (ENTRIES[ii].root)();
                        if let Some(mut f) = h.tape_search("c12.generated", per, 200, st, |tape, st| c12_unit_prop(&iface.model, &ix, root, tape, st)) {
                            f.case["spec"] = iface.spec_json.clone();
                            f.message = format!("interface {}: {}", iface.model.spec.name, f.message);
                            return Some(f);
                        }
                    }
                    None
                },
                |case| {
                    let ix = Index::new(&ifaces[0].model, true);
                    let root = (ENTRIES[0].root)();
                    let tape = tape_from_json(&case["tape"]);
                    c12_unit_prop(&ifaces[0].model, &ix, root, &tape, &mut Stats::default())
                },
            );
        }
        other => {
            eprintln!("gen: unknown property {}", other);
            std::process::exit(2);
        }
    }
    let _ = (esc(b""), Failure { message: String::new(), case: Value::Null });
    h.finish();
}

//! Generated collision-free declaration sets (C01, C02, C06).
include!(concat!(env!("OUT_DIR"), "/generated_valid.rs"));
include!("driver.rs");

#!/usr/bin/env python3
"""Rehearsal mutants: applies each mutant to /repo's working tree, runs the quick checks that are
expected to catch it, restores the tree. Results go to /verif/mutants/rehearsal_results.json.

usage: run_mutants.py [name-substring ...]
"""
import json, os, subprocess, sys, time

REPO = "/repo"
VERIF = "/verif"

P = "microscpi/src/parser.rs"
I = "microscpi/src/interface.rs"
T = "microscpi/src/tree.rs"
V = "microscpi/src/value.rs"
R = "microscpi/src/response.rs"
Q = "microscpi/src/error_queue.rs"
M = "microscpi-macros/src/lib.rs"
MC = "microscpi-macros/src/command.rs"
MT = "microscpi-macros/src/tree.rs"

# (name, [(file, old, new)], [properties expected to catch it])
MUTANTS = [
    ("c01-child-prefix-match", [(T, "if child.0.eq_ignore_ascii_case(name) {",
        "if child.0.len() >= name.len() && child.0.as_bytes()[..name.len()].eq_ignore_ascii_case(name.as_bytes()) {")], ["C01"]),
    ("c01-execute-falls-back-to-other-kind", [(I, """        let command = if call.query {
            call.node.query
        }
        else {
            call.node.command
        };""", """        let command = if call.query {
            call.node.query.or(call.node.command)
        }
        else {
            call.node.command.or(call.node.query)
        };""")], ["C01"]),
    ("c01-optional-last-not-omittable", [(MC, """                if part.optional {
                    new_paths.push(path.clone());
                }""", """                if part.optional && !std::ptr::eq(part, self.parts.last().unwrap()) {
                    new_paths.push(path.clone());
                }""")], ["C01"]),
    ("c01-long-mnemonics-compared-on-8-chars", [(T, "if child.0.eq_ignore_ascii_case(name) {",
        "if child.0.eq_ignore_ascii_case(name) || (name.len() > 8 && child.0.len() >= 8 && child.0.as_bytes()[..8].eq_ignore_ascii_case(&name.as_bytes()[..8])) {")], ["C01"]),
    ("c02-revert-empty-unit-reset", [(I, """            else {
                // An empty program message unit consumed the message terminator.
                header = self.root_node();
            }
""", "")], ["C02"]),
    ("c02-revert-absolute-single", [(P, """        if root_command.is_some() {
            header = root;
        }
        let mut node = header;""", """        let mut node = if root_command.is_some() { root } else { header };""")], ["C02"]),
    ("c02-common-resets-path", [(I, """                else if let Some(call_header) = call.header {
                    // Update the current header, if the current command is not a common command.
                    header = call_header;
                }""", """                else if let Some(call_header) = call.header {
                    header = call_header;
                }
                else {
                    header = self.root_node();
                }""")], ["C02"]),
    ("c02-path-is-full-header", [(P, """            header = node;
            node = node.child(name).ok_or(Error::UndefinedHeader)?;
            input = i;""", """            node = node.child(name).ok_or(Error::UndefinedHeader)?;
            header = node;
            input = i;""")], ["C02"]),
    ("c03-octal-read-as-hex", [(V, "<$type>::from_str_radix(data, 8).or(Err(Error::NumericDataError))",
        "<$type>::from_str_radix(data, 16).or(Err(Error::NumericDataError))")], ["C03"]),
    ("c03-f32-via-f64", [(V, """    fn try_into(self) -> Result<f32, Self::Error> {
        match self {
            Value::Decimal(data) => data.parse().or(Err(Error::NumericDataError)),""", """    fn try_into(self) -> Result<f32, Self::Error> {
        match self {
            Value::Decimal(data) => data.parse::<f64>().map(|v| v as f32).or(Err(Error::NumericDataError)),""")], ["C03"]),
    ("c03-arity-less-than", [(M, "if args.len() != #arg_count {", "if args.len() < #arg_count {")], ["C03"]),
    ("c03-int-wraps-through-i128", [(V, """                    Value::Decimal(data) => {
                        <$type>::from_str_radix(data, 10).or(Err(Error::NumericDataError))
                    }""", """                    Value::Decimal(data) => {
                        i128::from_str_radix(data, 10).map(|v| v as $type).or(Err(Error::NumericDataError))
                    }""")], ["C03"]),
    ("c04-revert-quote-doubling", [(R, """        if i > 0 {
            f.write_str("\\"\\"").await?;
        }""", """        if i > 0 {
            f.write_str("\\"").await?;
        }""")], ["C04"]),
    ("c04-nan-as-text", [(R, """        if self.is_nan() {
            f.write_str("9.91E+37").await
        }
        else if self.is_infinite() {
            if self.is_sign_negative() {
                f.write_str("-9.9E+37").await
            }
            else {
                f.write_str("9.9E+37").await
            }
        }
        else {
            write!(f, "{self}").await
        }
    }
}

impl Response for f64 {""", """        if self.is_infinite() {
            if self.is_sign_negative() {
                f.write_str("-9.9E+37").await
            }
            else {
                f.write_str("9.9E+37").await
            }
        }
        else {
            write!(f, "{self}").await
        }
    }
}

impl Response for f64 {""")], ["C04"]),
    ("c04-block-length-digits", [(R, "let len_digits = len.ilog10() + 1;", "let len_digits = len.ilog10().max(1);")], ["C04"]),
    ("c04-flush-omitted", [(I, """                response.write_char('\\n').await?;
                response.flush().await?;""", """                response.write_char('\\n').await?;""")], ["C04"]),
    ("c05-revert-unwrap", [(M, "result.write_response(response).await?;", "result.write_response(response).await.unwrap();")], ["C05"]),
    ("c05-overflow-test-greater", [(I, "if read_offset >= cmd_buf.len() {", "if read_offset > cmd_buf.len() {")], ["C05"]),
    ("c05-block-guard-dropped", [(P, """    if i2.len() < digits {
        return Err(ParseError::Incomplete);
    }
""", "")], ["C05"]),
    ("c06-revert-skip-faulty-message", [(I, """                match input.iter().position(|b| *b == b'\\n') {
                    Some(position) => {
                        input = &input[position + 1..];
                        header = self.root_node();
                        continue;
                    }
                    None => {
                        *path = self.root_node();
                        return input;
                    }
                }""", """                *path = self.root_node();
                return input;""")], ["C06", "C07"]),
    ("c06-handler-error-replaced", [(I, """                    defmt::trace!("Execution error");
                    self.handle_error(error);""", """                    defmt::trace!("Execution error");
                    self.handle_error(match error { Error::Custom(..) => Error::ExecutionError, e => e });""")], ["C06"]),
    ("c06-error-reported-twice", [(I, """                defmt::trace!("Parse error");
                self.handle_error(error.into());""", """                defmt::trace!("Parse error");
                let error: Error = error.into();
                if error == Error::InvalidCharacter { self.handle_error(error); }
                self.handle_error(error);""")], ["C06"]),
    ("c07-revert-compaction-order", [(I, """            // If there is unprocessed data, shift it to the beginning of the buffer.
            if proc_offset > 0 {
                cmd_buf.copy_within(proc_offset..read_end, 0);
                read_offset -= proc_offset;
                proc_offset = 0;
            }

            // Ensure `read_from` does not exceed the buffer length
            if read_offset >= cmd_buf.len() {
                #[cfg(feature = "defmt")]
                defmt::warn!("SCPI buffer overflow, resetting buffer");
                read_offset = 0;
                header = self.root_node();
            }""", """            if read_offset >= cmd_buf.len() {
                read_offset = 0;
                proc_offset = 0;
                header = self.root_node();
            }
            else if proc_offset > 0 {
                cmd_buf.copy_within(proc_offset..read_end, 0);
                read_offset -= proc_offset;
                proc_offset = 0;
            }""")], ["C07"]),
    ("c07-copy-within-off-by-one", [(I, "cmd_buf.copy_within(proc_offset..read_end, 0);", "cmd_buf.copy_within((proc_offset + 1).min(read_end)..read_end, 0);")], ["C07"]),
    ("c08-revert-incomplete-kept", [(P, """        match result {
            Err(ParseError::SoftError(_)) => next(input),
            other => other,
        }""", """        match result {
            Err(_) => next(input),
            other => other,
        }""")], ["C08", "C12"]),
    ("c08-revert-path-kept", [(I, "let remaining = self.run_from(&mut header, data, &mut res_buf).await;",
        "header = self.root_node();\n                let remaining = self.run_from(&mut header, data, &mut res_buf).await;")], ["C08"]),
    ("c08-string-stops-at-newline", [(P, """    let (i2, res) = take_while(|c| c != b'\\'')(i1)?;""", """    let (i2, res) = take_while(|c| c != b'\\'' && c != b'\\n')(i1)?;""")], ["C08"]),
    ("c08-revert-nine-digit-block", [(P, "satisfy(|c| (b'1'..=b'9').contains(&c))(i1)", "satisfy(|c| (b'1'..b'9').contains(&c))(i1)")], ["C08", "C03"]),
    ("c09-overflow-overwrites-front", [(Q, "if let Some(value) = self.0.back_mut() {", "if let Some(value) = self.0.front_mut() {")], ["C09"]),
    ("c09-overflow-dropped", [(Q, "*value = Error::QueueOverflow;", "let _ = value;")], ["C09"]),
    ("c09-next-peeks", [("microscpi/src/commands.rs", "if let Some(error) = self.error_queue().pop_error() {",
        "if let Some(error) = { let q = self.error_queue(); let e = q.pop_error(); if let Some(e) = e { if q.error_count() == 0 { q.push_error(e); } } e } {")], ["C09"]),
    ("c10-flush-omitted", [(I, """                    adapter.write(&res_buf).await?;
                    adapter.flush().await?;""", """                    adapter.write(&res_buf).await?;""")], ["C10"]),
    ("c10-write-error-ignored", [(I, "adapter.write(&res_buf).await?;", "let _ = adapter.write(&res_buf).await;")], ["C10"]),
    ("c10-ok-on-empty-read", [(I, "let read_end = read_offset + count;", "if count == 0 { return Ok(()); }\n            let read_end = read_offset + count;")], ["C10", "C07"]),
    ("c11-nul-not-whitespace", [(P, "matches!(input, 0u8..=9u8 | 11u8..=32u8)", "matches!(input, 1u8..=9u8 | 11u8..=32u8)")], ["C11"]),
    ("c11-no-whitespace-before-comma", [(P, """fn argument_separator(input: &[u8]) -> ParseResult<()> {
    let (input, _) = optional(whitespace)(input)?;""", """fn argument_separator(input: &[u8]) -> ParseResult<()> {""")], ["C11"]),
    ("c12-short-block-is-error", [(P, """    if i3.len() < count {
        Err(ParseError::Incomplete)
    }""", """    if i3.len() < count {
        Err(Error::BlockDataError.into())
    }""")], ["C12", "C08"]),
    ("c13-format-in-response", [(R, """impl Response for i8 {
    async fn write_response(&self, f: &mut impl Write) -> Result<(), Error> {
        write!(f, "{self}").await""", """impl Response for i8 {
    async fn write_response(&self, f: &mut impl Write) -> Result<(), Error> {
        extern crate alloc;
        let s = alloc::format!("{self}");
        f.write_str(&s).await""")], ["C13"]),
    ("c14-insert-overwrites", [(MT, """                if let Some(_existing) = &node.query {
                    return Err(Error::QueryExists);
                }
                else {
                    node.query = Some(cmd)
                }""", """                node.query = Some(cmd)""")], ["C14"]),
    ("c14-command-collisions-unchecked", [(MT, """            else if let Some(_existing) = &node.command {
                return Err(Error::CommandExists);
            }
            else {
                node.command = Some(cmd)
            }""", """            else {
                node.command = Some(cmd)
            }""")], ["C14"]),
    # ---- second batch (session 3): value-, shape- and history-dependent changes ----
    ("r2-bool-any-nonzero-decimal", [(V, """            | Value::Decimal("1") => Ok(true),""", """            | Value::Decimal("1") => Ok(true),
            Value::Decimal(d) if d.bytes().all(|b| b.is_ascii_digit()) && d.bytes().any(|b| b != b'0') => Ok(true),""")], ["C03"]),
    ("r2-int-leading-zeros-stripped", [(V, """                    Value::Decimal(data) => {
                        <$type>::from_str_radix(data, 10).or(Err(Error::NumericDataError))""", """                    Value::Decimal(data) => {
                        let data = if data.len() > 1 { data.trim_start_matches('0') } else { data };
                        <$type>::from_str_radix(data, 10).or(Err(Error::NumericDataError))""")], ["C03"]),
    ("r2-negzero-loses-sign", [(R, """impl Response for f64 {
    async fn write_response(&self, f: &mut impl Write) -> Result<(), Error> {
        if self.is_nan() {""", """impl Response for f64 {
    async fn write_response(&self, f: &mut impl Write) -> Result<(), Error> {
        if *self == 0.0 {
            f.write_char('0').await
        }
        else if self.is_nan() {""")], ["C04"]),
    ("r2-slice-separator-every-8", [(R, """impl<T> Response for [T]
where
    T: Response,
{
    async fn write_response(&self, f: &mut impl Write) -> Result<(), Error> {
        for (i, item) in self.iter().enumerate() {
            if i > 0 {""", """impl<T> Response for [T]
where
    T: Response,
{
    async fn write_response(&self, f: &mut impl Write) -> Result<(), Error> {
        for (i, item) in self.iter().enumerate() {
            if i % 8 != 0 {""")], ["C04"]),
    ("r2-tuple4-last-separator", [(R, """        self.2.write_response(f).await?;
        f.write_char(',').await?;
        self.3.write_response(f).await""", """        self.2.write_response(f).await?;
        f.write_char(';').await?;
        self.3.write_response(f).await""")], ["C04"]),
    ("r2-exponent-plus-refused", [(P, """    let (i2, _) = optional(sign)(i1)?;
    let (i3, _) = digits(i2)?;""", """    let (i2, _) = optional(tag(b'-'))(i1)?;
    let (i3, _) = digits(i2)?;""")], ["C03"]),
    ("r2-hex-lowercase-digits-refused", [(P, """    let (i3, _) = satisfy(|c| c.is_ascii_hexdigit())(i2)?;
    let (i4, _) = take_while(|c| c.is_ascii_hexdigit())(i3)?;""", """    let (i3, _) = satisfy(|c| c.is_ascii_digit() || (b'A'..=b'F').contains(&c))(i2)?;
    let (i4, _) = take_while(|c| c.is_ascii_digit() || (b'A'..=b'F').contains(&c))(i3)?;""")], ["C03"]),
    ("r2-child-scan-first-16", [(T, "for child in self.children {", "for child in self.children.iter().take(16) {")], ["C01"]),
    ("r2-ws-before-query-mark", [(P, """    let (input, query) = tag(b'?')(input)""", """    let (input, _) = optional(whitespace)(input)?;
    let (input, query) = tag(b'?')(input)""")], ["C01"]),
    ("r2-second-error-in-message-lost", [(I, """                if let Err(error) = self.execute(&call, response).await {
                    #[cfg(feature = "defmt")]
                    defmt::trace!("Execution error");
                    self.handle_error(error);
                }""", """                if let Err(error) = self.execute(&call, response).await {
                    #[cfg(feature = "defmt")]
                    defmt::trace!("Execution error");
                    if header == self.root_node() || error != Error::UndefinedHeader {
                        self.handle_error(error);
                    }
                }""")], ["C06"]),
    ("r2-queue-full-same-error-kept", [(Q, """            if let Some(value) = self.0.back_mut() {
                *value = Error::QueueOverflow;""", """            if let Some(value) = self.0.back_mut() {
                if *value != error { *value = Error::QueueOverflow; }""")], ["C09"]),
    ("r2-string-param-accepts-characters", [(V, """        match self {
            Value::String(data) => Ok(data),""", """        match self {
            Value::String(data) | Value::Characters(data) => Ok(data),""")], ["C03"]),
    ("r2-u8-response-as-i8-above-200", [(R, """impl Response for u8 {
    async fn write_response(&self, f: &mut impl Write) -> Result<(), Error> {
        write!(f, "{self}").await""", """impl Response for u8 {
    async fn write_response(&self, f: &mut impl Write) -> Result<(), Error> {
        if *self > 250 { return write!(f, "{}", *self as i8).await; }
        write!(f, "{self}").await""")], ["C04"]),
    ("r2-crlf-cr-kept-in-last-string", [(P, """    let (i2, res) = take_while(|c| c != b'"')(i1)?;
    let (i3, _) = tag(b'"')(i2)?;
    let res = str::from_utf8(res)?;""", """    let (i2, res) = take_while(|c| c != b'"')(i1)?;
    let (i3, _) = tag(b'"')(i2)?;
    let res = str::from_utf8(res)?;
    let res = if i3.first() == Some(&b'\\r') { res.trim_end_matches(' ') } else { res };""")], ["C08", "C11"]),
]


def sh(cmd, cwd=None, timeout=None):
    return subprocess.run(cmd, cwd=cwd, shell=True, stdout=subprocess.PIPE, stderr=subprocess.STDOUT, text=True, timeout=timeout)


def main():
    filt = sys.argv[1:]
    os.makedirs(os.path.join(VERIF, "mutants"), exist_ok=True)
    out_path = os.path.join(VERIF, "mutants", "rehearsal_results.json")
    results = {}
    if os.path.exists(out_path):
        results = json.load(open(out_path))
    if sh("git status --porcelain", cwd=REPO).stdout.strip():
        print("refusing to run: /repo has uncommitted changes")
        sys.exit(2)
    for name, edits, props in MUTANTS:
        if filt and not any(f in name for f in filt):
            continue
        try:
            ok = True
            for f, old, new in edits:
                path = os.path.join(REPO, f)
                s = open(path).read()
                if old not in s:
                    print("%s: pattern not found in %s" % (name, f))
                    ok = False
                    break
                open(path, "w").write(s.replace(old, new, 1))
            if not ok:
                results[name] = {"error": "pattern not found"}
                continue
            entry = {"expected": props, "checks": {}}
            for p in props:
                t0 = time.time()
                r = sh("./check %s --tier quick" % p, cwd=VERIF, timeout=1800)
                viol = [l for l in r.stdout.splitlines() if l.startswith("VIOLATION")]
                entry["checks"][p] = {"exit": r.returncode, "violation": bool(viol), "wall_s": round(time.time() - t0, 1),
                                      "tail": r.stdout.strip().splitlines()[-3:] if r.stdout.strip() else []}
                print("%-40s %s exit=%d %s (%.0fs)" % (name, p, r.returncode, "CAUGHT" if viol else "missed", time.time() - t0), flush=True)
            results[name] = entry
        finally:
            sh("git checkout -- .", cwd=REPO)
        json.dump(results, open(out_path, "w"), indent=1)
    print("done")


if __name__ == "__main__":
    main()

#!/usr/bin/env python3
"""Confirms the seeded changes delivered by the sub-agents in /tmp/seed-Cxx/ in ONE scratch worktree
(/tmp/wt-verify, outside /repo and /verif):
  - the patch applies to /repo's HEAD,
  - the existing test suite still passes with it,
  - the demonstration fails with it and passes without it.
Confirmed ones are copied to /verif/seeded/<id>-<n>/ (patch.diff, demo.rs, README.md, meta.json).
"""
import json, os, re, shutil, subprocess, sys

WT = "/tmp/wt-verify"
REPO = "/repo"


def sh(cmd, cwd=None, timeout=3600):
    return subprocess.run(cmd, cwd=cwd, shell=True, stdout=subprocess.PIPE, stderr=subprocess.STDOUT, text=True, timeout=timeout)


def suite_ok(out):
    results = re.findall(r"test result: (\w+)\. (\d+) passed; (\d+) failed", out)
    passed = sum(int(p) for _, p, _ in results)
    failed = sum(int(f) for _, _, f in results)
    return passed, failed


def main():
    args = sys.argv[1:]
    # round 2: deliverables in /tmp/seed2-Cxx, stored as variants 3 and 4
    round2 = "--round2" in args
    round3 = "--round3" in args
    round4 = "--round4" in args
    round5 = "--round5" in args
    only = [a for a in args if not a.startswith("--")]
    if not os.path.exists(WT):
        r = sh("git worktree add -q --detach %s HEAD" % WT, cwd=REPO)
        print(r.stdout)
    results = {}
    for i in range(1, 15):
        pid = "C%02d" % i
        if only and pid not in only:
            continue
        src = ("/tmp/seed5-%s" if round5 else "/tmp/seed4-%s" if round4 else "/tmp/seed3-%s" if round3 else "/tmp/seed2-%s" if round2 else "/tmp/seed-%s") % pid
        if not os.path.isdir(src):
            continue
        for n in (1, 2):
            patch = os.path.join(src, "patch%d.diff" % n)
            demo = os.path.join(src, "demo%d.rs" % n)
            key = "%s-%d" % (pid, n + (8 if round5 else 6 if round4 else 4 if round3 else 2 if round2 else 0))
            if not os.path.exists(patch):
                results[key] = {"status": "no patch"}
                continue
            sh("git checkout -q -- . && git clean -fdq microscpi/tests", cwd=WT)
            entry = {}
            r = sh("git apply --check %s" % patch, cwd=WT)
            if r.returncode != 0:
                entry["status"] = "patch does not apply: " + r.stdout[-300:]
                results[key] = entry
                print(key, entry["status"])
                continue
            demo_name = "seeded_demo_%s_%d" % (pid.lower(), n + (8 if round5 else 6 if round4 else 4 if round3 else 2 if round2 else 0))
            have_demo = os.path.exists(demo)
            # 1. demo on unchanged code
            if have_demo:
                shutil.copy(demo, os.path.join(WT, "microscpi/tests/%s.rs" % demo_name))
                r = sh("cargo test --offline -p microscpi --test %s 2>&1 | tail -40" % demo_name, cwd=WT)
                p0, f0 = suite_ok(r.stdout)
                use_ws = False
                if p0 + f0 == 0:
                    # the demo needs the std feature, which only feature unification of --workspace enables
                    use_ws = True
                    r = sh("cargo test --offline --workspace --test %s 2>&1 | tail -40" % demo_name, cwd=WT)
                    p0, f0 = suite_ok(r.stdout)
                entry["demo_without_patch"] = {"passed": p0, "failed": f0}
                os.remove(os.path.join(WT, "microscpi/tests/%s.rs" % demo_name))
            # 2. suite with the patch
            sh("git apply %s" % patch, cwd=WT)
            r = sh("cargo test --workspace --no-fail-fast --offline 2>&1 | tail -80", cwd=WT)
            p1, f1 = suite_ok(r.stdout)
            entry["suite_with_patch"] = {"passed": p1, "failed": f1}
            # 3. demo with the patch
            if have_demo:
                shutil.copy(demo, os.path.join(WT, "microscpi/tests/%s.rs" % demo_name))
                r = sh("cargo test --offline %s --test %s 2>&1 | tail -40" % ("--workspace" if use_ws else "-p microscpi", demo_name), cwd=WT, timeout=1800)
                p2, f2 = suite_ok(r.stdout)
                entry["demo_with_patch"] = {"passed": p2, "failed": f2, "tail": r.stdout[-400:] if f2 == 0 else ""}
            sh("git checkout -q -- . && git clean -fdq microscpi/tests", cwd=WT)
            ok = (entry["suite_with_patch"]["failed"] == 0 and entry["suite_with_patch"]["passed"] >= 88
                  and have_demo and entry["demo_without_patch"]["failed"] == 0 and entry["demo_without_patch"]["passed"] > 0
                  and (entry["demo_with_patch"]["failed"] > 0 or entry["demo_with_patch"]["passed"] == 0))
            entry["status"] = "confirmed" if ok else "NOT confirmed"
            results[key] = entry
            print(key, entry["status"], json.dumps({k: v for k, v in entry.items() if k != "status"})[:300], flush=True)
            if ok:
                dst = "/verif/seeded/%s" % key
                os.makedirs(dst, exist_ok=True)
                shutil.copy(patch, os.path.join(dst, "patch.diff"))
                shutil.copy(demo, os.path.join(dst, "demo.rs"))
                readme = os.path.join(src, "README.md")
                if os.path.exists(readme):
                    shutil.copy(readme, os.path.join(dst, "AUTHOR_README.md"))
                json.dump({"property": pid, "variant": n + (8 if round5 else 6 if round4 else 4 if round3 else 2 if round2 else 0), "confirmation": entry,
                           "ran": ["git apply patch.diff (scratch worktree /tmp/wt-verify of /repo HEAD)",
                                   "cargo test --workspace --no-fail-fast --offline  (with the patch: all pass)",
                                   "cargo test --offline -p microscpi --test <demo>  (fails with the patch, passes without)"]},
                          open(os.path.join(dst, "meta.json"), "w"), indent=1)
    path = "/verif/seeded/verification.json"
    if os.path.exists(path):
        old = json.load(open(path))
        old.update(results)
        results = old
    json.dump(results, open(path, "w"), indent=1)
    print("done")


if __name__ == "__main__":
    os.makedirs("/verif/seeded", exist_ok=True)
    main()

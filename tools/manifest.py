#!/usr/bin/env python3
"""Writes /verif/MANIFEST.json from the table below and validates it against the schema."""
import json, os, subprocess, sys

VERIF = os.path.dirname(os.path.dirname(os.path.abspath(__file__)))

ALL = ["C%02d" % i for i in range(1, 15)]

CHECKS = {
    "C02": dict(
        technique="model-based property testing (proptest choice tapes -> message sequences; reference path-context interpreter as oracle)",
        text="Generated multi-message compound buffers over the tree-rich fixture are executed through run (recording writer) and process and compared event for event with a reference interpreter written from the statement (path = header without last mnemonic, ':' resets, '*' keeps, terminator resets); exploration only - bounded by case counts.",
        note="Trusts the harness's reference model (spec.rs/gen.rs) and that fixture handlers record faithfully; after an undefined header both 'rest executed' and 'rest dropped' are accepted.",
        design="5/C02"),
    "C04": dict(
        technique="property-based testing with an independent type-directed response decoder (round trip value -> response -> value) and differential comparison of writers",
        text="Generated return values of every response type are sent through the real dispatcher; the bytes seen by a pass-through writer must decode completely and exactly to the value (floats judged by exact rational arithmetic), be followed by newline and one flush, and be identical for heapless::Vec, std Vec and process.",
        note="Trusts the harness decoder (decode.rs, bignum.rs). Queries returning () are not generated.",
        design="5/C04"),
    "C05": dict(
        technique="exhaustive enumeration of short byte strings over a class-representative alphabet x all buffer sizes/capacities, plus proptest-generated streams; crash/hang/suffix oracles",
        text="Every byte string up to the length bound over an 18-symbol alphabet is run through run (65 capacities) and process (71 buffer sizes x 4 read sizes); longer streams are generated. Oracles: no panic, run returns a suffix, process ends only with the transport's EOF error having consumed everything, never reads into an empty slice, oversized responses are reported. Hangs are caught by a watchdog and confirmed by re-running the saved input in a fresh process.",
        note="Absence of panics is only shown for what was explored; handlers of the fixture do not panic; harness built with overflow checks and debug assertions.",
        design="5/C05"),
    "C07": dict(
        technique="metamorphic property testing (all compositions of short streams into reads; random schedules and Pending scripts vs the single-byte schedule) and differential testing against run",
        text="For generated streams the observation (handlers+arguments, errors, bytes written) under every composition of the stream length into read sizes (exhaustive for short streams) and under random schedules / suspension patterns must equal the single-byte schedule; for complete messages that fit it must equal run message by message.",
        note="Messages for the run-vs-process clause leave no string or block open. Buffer sizes are the instantiated set (1..=64, 65, 100, 128, 255, 256, 1000, 4096).",
        design="5/C07"),
    "C08": dict(
        technique="model-based property testing (generated payload carriers at every argument position, reference interpreter as oracle, forced read boundaries inside payloads, newline-free twin as metamorphic relation)",
        text="Generated compound messages with string/block payloads containing newlines, separators and quotes are executed whole through run and streamed through process under schedules that cut inside payloads; handlers must receive the payloads verbatim, no error may be reported, and the handler sequence must equal the model's and the twin's.",
        note="Buffer sizes for process are the 13 instantiated sizes 8..4096 (messages are padded with blanks to fill a buffer exactly).",
        design="5/C08"),
    "C12": dict(
        technique="exhaustive enumeration of parser inputs x continuations over a class-representative alphabet, plus proptest-generated units with prefixes and tails; prefix/extension relations as oracle",
        text="parser::parse is called directly for every short input x and start node; accepted inputs must give the same call with any continuation appended (remainder = continuation) and consume at least a byte; newline-terminated rejected inputs must have no accepted continuation; Incomplete must not be returned when the input holds a complete unit.",
        note="Clause 3 is only checked where the ground truth is unambiguous (generated complete units; inputs whose first newline is preceded by no quote and no '#').",
        design="5/C12"),
}

PENDING = {
    "C01": "check not built yet (in progress): generated-interface pipeline",
    "C03": "check not built yet (in progress)",
    "C06": "check not built yet (in progress)",
    "C09": "check not built yet (in progress)",
    "C10": "check not built yet (in progress)",
    "C11": "check not built yet (in progress)",
    "C13": "check not built yet (in progress)",
    "C14": "check not built yet (in progress): generated-interface pipeline",
}

def main():
    checks = []
    for pid in ALL:
        if pid not in CHECKS:
            continue
        c = CHECKS[pid]
        checks.append({
            "property_id": pid,
            "quick_cmd": "./check %s --tier quick" % pid,
            "thorough_cmd": "./check %s --tier thorough" % pid,
            "evidence_file": "/verif/evidence/%s.json" % pid,
            "replay_cmd_template": "./check %s --replay {path}" % pid,
            "engine": c.get("engine", "proptest-harness"),
            "level_claimed": {"category": "exploration", "text": c["text"], "design_ref": "DESIGN.md section " + c["design"]},
            "level_note": c["note"],
            "technique": c["technique"],
        })
    manifest = {
        "version": 1,
        "setup_cmd": "cd /verif/harness && CARGO_NET_OFFLINE=true cargo build --release --offline -q",
        "hooks": {
            "guard": "microscpi_verif",
            "enable": "no hooks are used: every check observes microscpi through its public API (Interface::run/process, parser::parse, ErrorHandler, Adapter, Write, ErrorQueue) only",
            "baseline_off_cmd": "cd /repo && cargo test --workspace --no-fail-fast --offline",
            "source_commits": [],
            "add_only": True,
        },
        "engines": [
            {"name": "proptest-harness", "path": "/verif/harness", "serves_properties": sorted(CHECKS.keys()),
             "kind_free_text": "cargo workspace: vcore (choice tapes, proptest driver, reference models, exact decimal/float arithmetic, decoder), vrun (executor, recording writer/adapter/queue), fixture (interfaces generated through the real #[microscpi::interface] macro, one binary per property)"},
        ],
        "checks": checks,
        "notes": "Exit codes of ./check: 0 held, 1 VIOLATION line printed, 2 inconclusive (build failure, watchdog). Fixed defects are listed in known_findings.txt; their failing inputs are replayed from regress/<id>/ on every run.",
        "not_applicable": [{"property_id": k, "reason": v} for k, v in sorted(PENDING.items()) if k not in CHECKS],
    }
    path = os.path.join(VERIF, "MANIFEST.json")
    with open(path, "w") as f:
        json.dump(manifest, f, indent=2)
        f.write("\n")
    code = "import json,jsonschema; jsonschema.validate(json.load(open('%s')), json.load(open('/root/.vp/MANIFEST.schema.json'))); print('MANIFEST ok')" % path
    subprocess.check_call(["python3-vt", "-c", code])

if __name__ == "__main__":
    main()

#!/usr/bin/env python3
"""Writes /verif/MANIFEST.json from the table below and validates it against the schema."""
import json, os, subprocess, sys

VERIF = os.path.dirname(os.path.dirname(os.path.abspath(__file__)))

ALL = ["C%02d" % i for i in range(1, 15)]

CHECKS = {
    "C02": dict(
        technique="model-based property testing (proptest choice tapes -> message sequences; reference path-context interpreter as oracle)",
        text="Generated multi-message compound buffers over the tree-rich fixture are executed through run (recording writer) and process and compared event for event with a reference interpreter written from the statement (path = header without last mnemonic, ':' resets, '*' keeps, terminator resets); exploration only - bounded by case counts.",
        note="Trusts the harness's reference model (spec.rs/gen.rs) and that fixture handlers record faithfully; after an undefined header both 'rest executed' and 'rest dropped' are accepted.",
        design="5/C02"),
    "C04": dict(
        technique="property-based testing with an independent type-directed response decoder (round trip value -> response -> value) and differential comparison of writers",
        text="Generated return values of every response type are sent through the real dispatcher; the bytes seen by a pass-through writer must decode completely and exactly to the value (floats judged by exact rational arithmetic), be followed by newline and one flush, and be identical for heapless::Vec, std Vec and process.",
        note="Trusts the harness decoder (decode.rs, bignum.rs). Queries returning () are not generated.",
        design="5/C04"),
    "C05": dict(
        technique="exhaustive enumeration of short byte strings over a class-representative alphabet x all buffer sizes/capacities, plus proptest-generated streams; crash/hang/suffix oracles",
        text="Every byte string up to the length bound over an 19-symbol alphabet is run through run (65 capacities) and process (71 buffer sizes x 4 read sizes); longer streams are generated. Oracles: no panic, run returns a suffix, process ends only with the transport's EOF error having consumed everything, never reads into an empty slice, oversized responses are reported; queries of every response type returning generated values (extreme floats whose decimal text has hundreds of characters, long strings and blocks, composites) are run into response buffers of 0..4096 bytes (c05.values: no panic, and silence only together with the exact responses). Hangs are caught by a watchdog and confirmed by re-running the saved input in a fresh process.",
        note="Absence of panics is only shown for what was explored; handlers of the fixture do not panic; harness built with overflow checks and debug assertions.",
        design="5/C05"),
    "C07": dict(
        technique="metamorphic property testing (all compositions of short streams into reads; random schedules and Pending scripts vs the single-byte schedule) and differential testing against run",
        text="For generated streams the observation (handlers+arguments, errors, bytes written) under every composition of the stream length into read sizes (exhaustive for short streams) and under random schedules / suspension patterns must equal the single-byte schedule; for complete messages that fit it must equal run message by message.",
        note="Messages for the run-vs-process clause leave no string or block open. Buffer sizes are the instantiated set (1..=64, 65, 100, 128, 255, 256, 1000, 4096).",
        design="5/C07"),
    "C08": dict(
        technique="model-based property testing (generated payload carriers at every argument position, reference interpreter as oracle, forced read boundaries inside payloads, newline-free twin as metamorphic relation)",
        text="Generated compound messages with string/block payloads containing newlines, separators and quotes are executed whole through run and streamed through process under schedules that cut inside payloads; handlers must receive the payloads verbatim, no error may be reported, and the handler sequence must equal the model's and the twin's.",
        note="Buffer sizes for process are the 13 instantiated sizes 8..4096 (messages are padded with blanks to fill a buffer exactly).",
        design="5/C08"),
    "C03": dict(
        technique="property-based testing against reference literal semantics (exact integer conversion; correct rounding decided by big-integer arithmetic), classes of literals built around type bounds and rounding boundaries",
        text="Generated parameter lists for every parameter type and several signatures are sent through the real parser and dispatcher; the recorded handler arguments must equal the literals written exactly (floats: the correctly rounded value, decided by exact arithmetic independent of the standard library), or the handler must not run and exactly one error with an allowed number must be reported. TryInto<T> for &Value is also exercised directly. String and block parameters contain newlines wherever the message has no parser-level fault.",
        note="Where the statement leaves both rejection and exact delivery open (1.0 into an integer, float overflow, TRUE/FALSE ...) either is accepted, never a different value. Trusts bignum.rs/lits.rs.",
        design="5/C03"),
    "C06": dict(
        technique="model-based property testing with fault injection at every unit position (eight fault kinds), reference interpreter with all-or-none alternatives as oracle",
        text="Generated sequences of complete messages in which a random subset has exactly one faulty unit (syntax, undefined header, arity, kind, range, boolean, handler error) go through run in one buffer and through process; exactly one error per faulty message (verbatim for handler errors), earlier units as predicted, faulty handler not invoked, rest all-or-none, later messages exactly as in isolation.",
        note="Faulty units never contain quotes or '#'; the unit after a syntactically broken unit is absolute or common. Fixture tree plus (in the C01 pipeline) generated trees.",
        design="5/C06"),
    "C09": dict(
        technique="exhaustive enumeration of operation sequences (bounded depth, all capacities) plus proptest-generated grouped sequences, against a VecDeque reference queue",
        text="All sequences of faults / queue reads / counts / commands up to the depth bound for capacities 1,2,3,4,10 are run through the interface; every SYST:ERR? / COUNt? response must equal the reference queue's prediction byte for byte; the ErrorQueue trait is also driven directly.",
        note="The reference queue is fed with the error values observed at push_error; the text of each entry is the library's text for that value (only 'Queue overflow' comes from the model).",
        design="5/C09"),
    "C10": dict(
        technique="property-based testing over generated streams and schedules with exhaustive fault injection at every position of the transport call sequence; trace oracle",
        text="For generated streams the transport trace is checked: at every read the written bytes equal the predicted responses of exactly the completely delivered messages and are flushed; then a transport error is injected at every call position and the trace must be the fault-free prefix, the error returned unchanged, no further call.",
        note="'Never returns Ok' is decided for finite streams only (they end with an EOF error). N large enough for all messages/responses.",
        design="5/C10"),
    "C11": dict(
        technique="metamorphic property testing (base message vs lexical variants), exhaustive over all 32 white-space byte values per slot kind",
        text="Base messages (valid and with execution-type faults) are compared with variants that change case, exchange short/long forms, insert white space of every permitted byte value in every permitted slot, and use CR LF; handlers, arguments, responses and errors must be identical through run and process. The same property runs over the generated declaration sets of the C01 pipeline (c11.generated: mnemonics declared only in short form next to the same node spelled in full, non-prefix short forms, digits, underscores).",
        note="White space is varied only at the positions the statement lists. A variant is discarded when the reference dictionary itself resolves it differently (an exchanged form that is the short form of two sibling nodes at once).",
        design="5/C11"),
    "C12": dict(
        technique="exhaustive enumeration of parser inputs x continuations over a class-representative alphabet, plus proptest-generated units with prefixes and tails; prefix/extension relations as oracle",
        text="parser::parse is called directly for every short input x and start node; accepted inputs must give the same call with any continuation appended (remainder = continuation) and consume at least a byte; newline-terminated rejected inputs must have no accepted continuation; Incomplete must not be returned when the input holds a complete unit.",
        note="Clause 3 is only checked where the ground truth is unambiguous (generated complete units; inputs whose first newline is preceded by no quote and no '#').",
        design="5/C12"),
}

CHECKS["C13"] = dict(
    technique="property-based testing with a counting global allocator as oracle (generated inputs through run/process with fixed-capacity buffers), plus a fixed build probe (#![no_std] staticlib without allocator)",
    text="Generated streams (valid, faulty, garbage, chunked) are executed against a no-alloc fixture with microscpi built with default features; a counting #[global_allocator] must see 0 allocations inside run/process. The fixture includes handlers with a user-defined parameter and response type (keyword enum with its own TryFrom<&Value> / Response), application error types, generic interface types and non-handler items. The static half builds microscpi into a #![no_std] static library that has a panic handler and no global allocator.",
    note="Dynamic half covers the paths exercised; static half covers every instantiated path of this fixture (host target only - no bare-metal target is installed). String responses (std) are excluded.",
    design="5/C13")

CHECKS["C01"] = dict(
    technique="property-based testing over generated programs (declaration sets compiled through the real macro) with an independent reference dictionary; exhaustive enumeration of declared spellings and systematic near misses per set, plus proptest mutations",
    text="Seeded generator emits declaration sets (optional nodes anywhere, non-prefix short forms, digits/underscores, common commands, command+query, sync/async, all attribute combinations); the crate is compiled by cargo and every declared spelling and every systematic near miss of every declaration is run alone and judged by a spec-level dictionary that shares no code with the macro or parser: exactly one invocation of the right handler, or none and exactly one -113. Standard commands are probed in every spelling whether requested or not.",
    note="Declaration sets are bounded (depth <= 4, <= 14 declarations, ASCII mnemonics); all-optional paths are excluded. The compiler is the executor of the generated case.",
    design="5/C01", engine="generated-program-pipeline")
CHECKS["C02"]["engine"] = "proptest-harness + generated-program-pipeline"
CHECKS["C03"]["engine"] = "proptest-harness + generated-program-pipeline"
CHECKS["C12"]["engine"] = "proptest-harness + generated-program-pipeline + libFuzzer (thorough)"
CHECKS["C05"]["engine"] = "proptest-harness + libFuzzer (thorough)"
CHECKS["C07"]["engine"] = "proptest-harness + libFuzzer (thorough)"
CHECKS["C06"]["engine"] = "proptest-harness + generated-program-pipeline"
CHECKS["C11"]["engine"] = "proptest-harness + generated-program-pipeline"
CHECKS["C14"] = dict(
    technique="property-based testing over generated programs: ambiguous declaration sets must fail to compile (cargo check diagnostics mapped to each set), their minimally de-collided twins must compile and reach every handler (reference dictionary as oracle)",
    text="A seeded generator builds collision-free sets plus one colliding pair of fourteen kinds (identical, short/long induced, optional-node induced, standard command redeclared, query variants, letter case changed, common commands in another letter case). All ambiguous sets go into one crate: cargo check must report the macro's rejection in the module of every set. The twins are compiled and every declared spelling must reach exactly its own handler (nothing shadowed).",
    note="Which sets are ambiguous is decided by the harness's reference dictionary. The compiler is the executor of the generated case.",
    design="5/C14", engine="generated-program-pipeline")

PENDING = {
}

def main():
    checks = []
    for pid in ALL:
        if pid not in CHECKS:
            continue
        c = CHECKS[pid]
        checks.append({
            "property_id": pid,
            "quick_cmd": "./check %s --tier quick" % pid,
            "thorough_cmd": "./check %s --tier thorough" % pid,
            "evidence_file": "/verif/evidence/%s.json" % pid,
            "replay_cmd_template": "./check %s --replay {path}" % pid,
            "engine": c.get("engine", "proptest-harness"),
            "level_claimed": {"category": "exploration", "text": c["text"], "design_ref": "DESIGN.md section " + c["design"]},
            "level_note": c["note"],
            "technique": c["technique"],
        })
    manifest = {
        "version": 1,
        "setup_cmd": "cd /verif/harness && CARGO_NET_OFFLINE=true cargo build --release --offline -q && CARGO_NET_OFFLINE=true cargo build --release --offline -q -p noalloc && cd nostd_probe && CARGO_NET_OFFLINE=true cargo build --release --offline -q",
        "hooks": {
            "guard": "microscpi_verif",
            "enable": "no hooks are used: every check observes microscpi through its public API (Interface::run/process, parser::parse, ErrorHandler, Adapter, Write, ErrorQueue) only",
            "baseline_off_cmd": "cd /repo && cargo test --workspace --no-fail-fast --offline",
            "source_commits": [],
            "add_only": True,
        },
        "engines": [
            {"name": "generated-program-pipeline", "path": "/verif/harness/gen", "serves_properties": ["C01", "C02", "C03", "C06", "C11", "C12", "C14"],
             "kind_free_text": "vcore::treegen generates declaration sets from the seed; gen/build.rs and genamb/build.rs emit them as Rust modules using the real #[microscpi::interface] macro; cargo compiles them (genamb is expected to fail, its diagnostics are mapped back to each generated set); a driver linked into the same crate attacks every generated interface"},
            {"name": "libfuzzer-targets", "path": "/verif/harness/fuzz", "serves_properties": ["C05", "C07", "C12"],
             "kind_free_text": "cargo-fuzz crate (fz_stream, fz_parse) whose targets call fixture::fuzzing::{stream_case_for, parse_case}: the semantic oracles are inside the target; run by ./check in the thorough tier (12 jobs, -runs bounded, built without sanitizer: the library has no unsafe code), findings are written as replay files by the target itself and re-executed by the *.fuzz_replay sub-checks"},
            {"name": "proptest-harness", "path": "/verif/harness", "serves_properties": sorted(CHECKS.keys()),
             "kind_free_text": "cargo workspace: vcore (choice tapes, proptest driver, reference models, exact decimal/float arithmetic, decoder), vrun (executor, recording writer/adapter/queue), fixture (interfaces generated through the real #[microscpi::interface] macro, one binary per property)"},
        ],
        "checks": checks,
        "notes": "Exit codes of ./check: 0 held, 1 VIOLATION line printed, 2 inconclusive (build failure, watchdog). Fixed defects are listed in known_findings.txt; their failing inputs are replayed from regress/<id>/ on every run.",
        "not_applicable": [{"property_id": k, "reason": v} for k, v in sorted(PENDING.items()) if k not in CHECKS],
    }
    path = os.path.join(VERIF, "MANIFEST.json")
    with open(path, "w") as f:
        json.dump(manifest, f, indent=2)
        f.write("\n")
    code = "import json,jsonschema; jsonschema.validate(json.load(open('%s')), json.load(open('/root/.vp/MANIFEST.schema.json'))); print('MANIFEST ok')" % path
    subprocess.check_call(["python3-vt", "-c", code])

if __name__ == "__main__":
    main()

#!/usr/bin/env python3
"""Benign changes: behaviour-preserving or property-preserving edits of /repo. Every quick check must stay
silent (exit 0, no VIOLATION). Results: /verif/mutants/benign_results.json"""
import json, os, subprocess, sys, time
REPO, VERIF = "/repo", "/verif"
E = "microscpi/src/error.rs"; I = "microscpi/src/interface.rs"; R = "microscpi/src/response.rs"; L = "microscpi/src/lib.rs"
M = "microscpi-macros/src/lib.rs"; P = "microscpi/src/parser.rs"
BENIGN = [
    ("version-string-changed", [(L, 'pub const SCPI_STD_VERSION: &str = "1999.0";', 'pub const SCPI_STD_VERSION: &str = "1999.1";')]),
    ("error-descriptions-reworded", [(E, 'Error::HardwareError => "Hardware error",', 'Error::HardwareError => "Hardware failure",'),
                                     (E, 'Error::UndefinedHeader => "Undefined header",', 'Error::UndefinedHeader => "Header undefined",'),
                                     (E, 'Error::DataTypeError => "Data type error",', 'Error::DataTypeError => "Wrong data type",')]),
    ("invalid-character-reported-as-syntax-error", [(I, "self.handle_error(error.into());", "let error: Error = error.into();\n                self.handle_error(if error == Error::InvalidCharacter { Error::SyntaxError } else { error });")]),
    ("floats-printed-with-exponent", [(R, '''        else {
            write!(f, "{self}").await
        }
    }
}

impl Response for f64 {''', '''        else {
            write!(f, "{self:E}").await
        }
    }
}

impl Response for f64 {''')]),
    ("extra-flush-after-every-unit", [(I, '''            if call.query {
                response.write_char('\\n').await?;
                response.flush().await?;
            }''', '''            if call.query {
                response.write_char('\\n').await?;
                response.flush().await?;
            }
            response.flush().await?;''')]),
    ("arity-error-number-changed", [(M, "Err(::microscpi::Error::UnexpectedNumberOfParameters)", "Err(::microscpi::Error::ParameterNotAllowed)")]),
    ("children-emitted-in-reverse-order", [(M, '''        let entries = cmd_node.children.iter().map(|(name, node_id)| {
            let reference = format_ident!("SCPI_NODE_{}", node_id);
            quote!((#name, &#reference))
        });''', '''        let mut entries: Vec<proc_macro2::TokenStream> = cmd_node.children.iter().map(|(name, node_id)| {
            let reference = format_ident!("SCPI_NODE_{}", node_id);
            quote!((#name, &#reference))
        }).collect();
        entries.reverse();''')]),
    ("process-flushes-twice", [(I, '''                    adapter.write(&res_buf).await?;
                    adapter.flush().await?;''', '''                    adapter.write(&res_buf).await?;
                    adapter.flush().await?;
                    adapter.flush().await?;''')]),
]

# VERIF_ONLY=C03,C05 restricts the run to these checks (results of the others are kept)
ONLY = [x for x in os.environ.get("VERIF_ONLY", "").split(",") if x]

def sh(cmd, cwd=None, timeout=3600):
    return subprocess.run(cmd, cwd=cwd, shell=True, stdout=subprocess.PIPE, stderr=subprocess.STDOUT, text=True, timeout=timeout)

def run_patches(filt):
    """Benign changes written by sub-agents: /verif/benign/<area>-<n>/patch.diff"""
    out = os.path.join(VERIF, "benign", "results.json")
    results = json.load(open(out)) if os.path.exists(out) else {}
    for key in sorted(os.listdir(os.path.join(VERIF, "benign"))):
        d = os.path.join(VERIF, "benign", key)
        if not os.path.isdir(d) or (filt and not any(f in key for f in filt)):
            continue
        try:
            r = sh("git apply %s/patch.diff" % d, cwd=REPO)
            if r.returncode != 0:
                print(key, "patch does not apply", r.stdout[-200:]); continue
            r = sh("true" if os.environ.get("VERIF_SKIP_TESTS") else "cargo test --workspace --no-fail-fast --offline 2>&1 | grep -E 'test result' | head -5", cwd=REPO)
            entry = {"repo_tests": r.stdout.strip().splitlines() or results.get(key, {}).get("repo_tests", []), "checks": dict(results.get(key, {}).get("checks", {})) if ONLY else {}}
            for i in range(1, 15):
                p = "C%02d" % i
                if ONLY and p not in ONLY:
                    continue
                r = sh("./check %s --tier quick" % p, cwd=VERIF)
                viol = [l for l in r.stdout.splitlines() if l.startswith("VIOLATION")]
                entry["checks"][p] = {"exit": r.returncode, "alarm": bool(viol)}
                if viol or r.returncode != 0:
                    lines = [l for l in r.stdout.strip().splitlines() if l.strip()]
                    entry["checks"][p]["report"] = lines[-2][:900] if len(lines) >= 2 else (lines[-1][:300] if lines else "")
                print("%-12s %s exit=%d %s" % (key, p, r.returncode, "ALARM" if viol else ("silent" if r.returncode == 0 else "INCONCLUSIVE")), flush=True)
            results[key] = entry
        finally:
            sh("git checkout -- .", cwd=REPO)
        json.dump(results, open(out, "w"), indent=1)
    print("done")


def main():
    if "--patches" in sys.argv:
        if sh("git status --porcelain", cwd=REPO).stdout.strip():
            print("refusing: /repo dirty"); sys.exit(2)
        return run_patches([a for a in sys.argv[1:] if not a.startswith("--")])
    filt = sys.argv[1:]
    if sh("git status --porcelain", cwd=REPO).stdout.strip():
        print("refusing: /repo dirty"); sys.exit(2)
    out = os.path.join(VERIF, "mutants", "benign_results.json")
    results = json.load(open(out)) if os.path.exists(out) else {}
    for name, edits in BENIGN:
        if filt and not any(f in name for f in filt):
            continue
        try:
            ok = True
            for f, old, new in edits:
                path = os.path.join(REPO, f)
                s = open(path).read()
                if old not in s:
                    print(name, "pattern not found in", f); ok = False; break
                open(path, "w").write(s.replace(old, new, 1))
            if not ok:
                continue
            r = sh("true" if os.environ.get("VERIF_SKIP_TESTS") else "cargo test --workspace --no-fail-fast --offline 2>&1 | grep -E 'test result' | head -5", cwd=REPO)
            entry = {"repo_tests": r.stdout.strip().splitlines() or results.get(name, {}).get("repo_tests", []), "checks": dict(results.get(name, {}).get("checks", {})) if ONLY else {}}
            for i in range(1, 15):
                p = "C%02d" % i
                if ONLY and p not in ONLY:
                    continue
                r = sh("./check %s --tier quick" % p, cwd=VERIF)
                viol = [l for l in r.stdout.splitlines() if l.startswith("VIOLATION")]
                entry["checks"][p] = {"exit": r.returncode, "alarm": bool(viol)}
                if viol or r.returncode != 0:
                    lines = [l for l in r.stdout.strip().splitlines() if l.strip()]
                    entry["checks"][p]["report"] = lines[-2][:700] if len(lines) >= 2 else ""
                print("%-45s %s exit=%d %s" % (name, p, r.returncode, "ALARM" if viol else "silent"), flush=True)
            results[name] = entry
        finally:
            sh("git checkout -- .", cwd=REPO)
        json.dump(results, open(out, "w"), indent=1)
    print("done")

if __name__ == "__main__":
    main()

#!/usr/bin/env python3
"""Runs the quick checks against every confirmed seeded change in /verif/seeded/<id>-<n>/:
git -C /repo apply patch.diff; ./check ...; git -C /repo checkout -- .
usage: run_seeded.py [--all-checks] [key-substring ...]
Results: /verif/seeded/results.json and the "detected_by" field of each meta.json."""
import json, os, subprocess, sys, time

REPO, VERIF = "/repo", "/verif"
EXTRA = {  # further properties whose statement the change also breaks (run in addition to the owner)
    "C02-2": ["C06"], "C06-1": ["C02"], "C05-2": ["C07"], "C08-2": ["C12"], "C12-1": ["C08"], "C09-2": ["C03"],
    "C03-1": [], "C11-2": ["C01"], "C07-1": ["C08"],
    "C02-6": ["C08"], "C03-6": ["C09"], "C05-5": ["C03"], "C05-6": ["C09"], "C09-6": ["C10", "C08"], "C10-5": ["C07"], "C10-6": ["C05"],
    "C01-6": ["C11"], "C11-5": ["C01"], "C07-6": ["C02"], "C04-5": ["C10"], "C13-5": [], "C12-6": ["C08"],
    "C01-7": ["C14"], "C02-8": ["C06"], "C05-7": ["C04"], "C05-8": ["C01"], "C06-8": ["C01", "C12"], "C07-7": ["C06"], "C08-7": ["C03", "C05"],
    "C09-8": ["C06"], "C10-8": ["C04"], "C11-7": ["C01"], "C11-8": ["C07"], "C12-8": ["C05"], "C03-7": ["C12"], "C04-8": ["C02"],
    "C02-4": ["C06"], "C04-4": ["C07"], "C06-3": ["C03"], "C06-4": ["C01"], "C07-4": ["C02"], "C08-3": ["C12"],
    "C10-3": ["C08"], "C10-4": ["C06", "C07"], "C12-3": ["C08"], "C05-4": ["C03"], "C03-4": ["C06"],
}


def sh(cmd, cwd=None, timeout=3600):
    return subprocess.run(cmd, cwd=cwd, shell=True, stdout=subprocess.PIPE, stderr=subprocess.STDOUT, text=True, timeout=timeout)


def main():
    args = sys.argv[1:]
    all_checks = "--all-checks" in args
    owner_only = "--owner-only" in args
    filt = [a for a in args if not a.startswith("--")]
    if sh("git status --porcelain", cwd=REPO).stdout.strip():
        print("refusing to run: /repo has uncommitted changes")
        sys.exit(2)
    rpath = os.path.join(VERIF, "seeded", "results.json")
    results = json.load(open(rpath)) if os.path.exists(rpath) else {}
    keys = sorted(k for k in os.listdir(os.path.join(VERIF, "seeded")) if os.path.isdir(os.path.join(VERIF, "seeded", k)))
    for key in keys:
        if filt and not any(f in key for f in filt):
            continue
        d = os.path.join(VERIF, "seeded", key)
        owner = key.split("-")[0]
        props = ["C%02d" % i for i in range(1, 15)] if all_checks else [owner] + ([] if owner_only else EXTRA.get(key, []))
        try:
            r = sh("git apply %s/patch.diff" % d, cwd=REPO)
            if r.returncode != 0:
                print(key, "patch does not apply", r.stdout[-200:])
                continue
            entry = results.get(key, {})
            for p in props:
                t0 = time.time()
                r = sh("./check %s --tier quick" % p, cwd=VERIF, timeout=2400)
                viol = [l for l in r.stdout.splitlines() if l.startswith("VIOLATION")]
                lines = [l for l in r.stdout.strip().splitlines() if l.strip()]
                entry[p] = {"exit": r.returncode, "caught": bool(viol), "wall_s": round(time.time() - t0, 1),
                            "report": (lines[-2][:600] if len(lines) >= 2 and viol else (lines[-1][:300] if lines else ""))}
                print("%-8s %s exit=%d %s (%.0fs)" % (key, p, r.returncode, "CAUGHT" if viol else "missed", time.time() - t0), flush=True)
            results[key] = entry
        finally:
            sh("git checkout -- .", cwd=REPO)
        json.dump(results, open(rpath, "w"), indent=1)
        mpath = os.path.join(d, "meta.json")
        meta = json.load(open(mpath))
        meta["detected_by"] = sorted(p for p, v in results[key].items() if v.get("caught"))
        meta["not_detected_by"] = sorted(p for p, v in results[key].items() if not v.get("caught"))
        meta["checks_run"] = ["git -C /repo apply patch.diff; ./check %s --tier quick; git -C /repo checkout -- ." % p for p in sorted(results[key])]
        json.dump(meta, open(mpath, "w"), indent=1)
    print("done")


if __name__ == "__main__":
    main()
